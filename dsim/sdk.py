"""Generate the Python SDK from the working tree, import it in-process, build instances."""
from __future__ import annotations

import hashlib
import importlib
import math
import os
import pathlib
import random
import shutil
import struct
import sys
import tempfile
from typing import Any, Dict, List, Optional, Tuple

from dsim import kernel, repo

_SDK_ROOT: Optional[str] = None
_SDKS: Dict[str, Optional["Sdk"]] = {}


class Sdk:
    def __init__(self, name: str, symbol_table: Any, mods: Dict[str, Any]) -> None:
        self.name = name
        self.symbol_table = symbol_table
        self.types = mods["types"]
        self.xmlization = mods["xmlization"]
        self.jsonization = mods["jsonization"]


def _root() -> str:
    global _SDK_ROOT
    if _SDK_ROOT is None or not os.path.isdir(_SDK_ROOT):
        _SDK_ROOT = os.path.join(kernel.sandbox_base(), f"aascg-sdk-{os.getpid()}")
        if os.path.exists(_SDK_ROOT):
            shutil.rmtree(_SDK_ROOT)
        os.makedirs(_SDK_ROOT)
        sys.path.insert(0, _SDK_ROOT)
        import atexit

        atexit.register(shutil.rmtree, _SDK_ROOT, True)
    return _SDK_ROOT


def load_sdk(model_id: str, text: str) -> Optional[Sdk]:
    """Generate + import the Python SDK for the model text; None if generation fails."""
    key = hashlib.sha256(text.encode()).hexdigest()[:12]
    if key in _SDKS:
        return _SDKS[key]
    repo.activate()
    import aas_core_codegen.run as cg_run

    name = f"vsdk_{key}"
    root = _root()
    work = os.path.join(root, f"_work_{key}")
    os.makedirs(work, exist_ok=True)
    sdk: Optional[Sdk] = None
    old_tmp = tempfile.tempdir
    try:
        tempfile.tempdir = work
        model_path = os.path.join(work, "meta_model.py")
        with kernel.real_open(model_path, "w", encoding="utf-8", newline="") as f:
            f.write(text)
        if model_id == "common/aas_core_meta.v3":
            sdir = os.path.join(work, "snippets")
            shutil.copytree(repo.big_snippets_dir("python"), sdir)
        else:
            sdir = os.path.join(work, "snippets")
            os.makedirs(sdir, exist_ok=True)
        with kernel.real_open(os.path.join(sdir, "qualified_module_name.txt"), "w") as f:
            f.write(name)
        out_dir = os.path.join(work, "out")
        os.makedirs(out_dir, exist_ok=True)
        res = repo.run_generator(model_path, "python", sdir, out_dir, cache=False)
        if res.exc is None and res.rc == 0 and os.path.isdir(os.path.join(out_dir, name)):
            shutil.move(os.path.join(out_dir, name), os.path.join(root, name))
            importlib.invalidate_caches()
            loaded = cg_run.load_model(pathlib.Path(model_path), False)
            if loaded[0] is not None:
                mods = {}
                try:
                    for m in ("types", "xmlization", "jsonization"):
                        mods[m] = importlib.import_module(f"{name}.{m}")
                    sdk = Sdk(name, loaded[0][0], mods)
                except Exception:  # generated code does not import: C20 matter, not ours
                    sdk = None
    finally:
        tempfile.tempdir = old_tmp
        shutil.rmtree(work, ignore_errors=True)
    _SDKS[key] = sdk
    return sdk


# --------------------------------------------------------------------------------------
# instance generation driven by the symbol table
# --------------------------------------------------------------------------------------

XML_CHARS = ["a", "Z", "0", " ", "  ", "\t", "\n", "<", ">", "&", "\"", "'", "]]>", "\u00e4",
             "\u4e2d", "\U0001f600", "\u0085", "\u2028", "\u00a0", "x y", "&amp;", "<!--", "-->",
             "<?", "\u00e9", "\ud7ff", "\ue000", "\ufffd"]
FLOATS = [0.0, -0.0, 1.0, -1.5, 1e308, 5e-324, 3.141592653589793, float("inf"), float("-inf"),
          float("nan"), 1e-7, 123456789.125, 2.5e-10, -1e21]
INTS = [0, 1, -1, 42, 2 ** 31 - 1, -2 ** 31, 2 ** 63 - 1, -2 ** 63, 10 ** 12]


class GenGiveUp(Exception):
    pass


class InstanceGen:
    def __init__(self, sdk: Sdk, rng: random.Random, allow_cr: bool, allow_empty_bytes: bool) -> None:
        from aas_core_codegen import intermediate
        from aas_core_codegen.python import naming as python_naming

        self.sdk = sdk
        self.rng = rng
        self.I = intermediate
        self.N = python_naming
        self.allow_cr = allow_cr
        self.allow_empty_bytes = allow_empty_bytes
        self.tags: set = set()
        self.budget = 200

    def string(self) -> str:
        r = self.rng.random()
        if r < 0.1:
            return ""
        n = self.rng.choice([1, 1, 2, 3, 6])
        parts = [self.rng.choice(XML_CHARS) for _ in range(n)]
        if self.allow_cr and self.rng.random() < 0.08:
            parts.insert(self.rng.randrange(len(parts) + 1), self.rng.choice(["\r", "\r\n", "a\rb"]))
            self.tags.add("cr")
        return "".join(parts)

    def primitive(self, prim: Any) -> Any:
        P = self.I.PrimitiveType
        if prim is P.BOOL:
            return self.rng.random() < 0.5
        if prim is P.INT:
            return self.rng.choice(INTS)
        if prim is P.FLOAT:
            return self.rng.choice(FLOATS)
        if prim is P.STR:
            return self.string()
        if prim is P.BYTEARRAY:
            r = self.rng.random()
            if r < 0.1 and self.allow_empty_bytes:
                self.tags.add("empty-bytes")
                return bytearray()
            n = self.rng.choice([1, 2, 3, 8, 33])
            return bytearray(self.rng.randrange(256) for _ in range(n))
        raise GenGiveUp(f"primitive {prim}")

    def value(self, ann: Any, depth: int) -> Any:
        I = self.I
        self.budget -= 1
        if self.budget < 0:
            raise GenGiveUp("budget")
        if isinstance(ann, I.OptionalTypeAnnotation):
            if depth <= 0 or self.rng.random() < 0.35:
                return None
            return self.value(ann.value, depth)
        if isinstance(ann, I.PrimitiveTypeAnnotation):
            return self.primitive(ann.a_type)
        if isinstance(ann, I.ListTypeAnnotation):
            n = 0 if depth <= 0 else self.rng.choice([0, 1, 1, 2, 3])
            return [self.value(ann.items, depth - 1) for _ in range(n)]
        if isinstance(ann, I.OurTypeAnnotation):
            t = ann.our_type
            if isinstance(t, I.Enumeration):
                enum_cls = getattr(self.sdk.types, self.N.enum_name(t.name))
                lit = t.literals[self.rng.randrange(len(t.literals))]
                return getattr(enum_cls, self.N.enum_literal_name(lit.name))
            if isinstance(t, I.ConstrainedPrimitive):
                return self.primitive(t.constrainee)
            if isinstance(t, (I.AbstractClass, I.ConcreteClass)):
                return self.instance_of(t, depth - 1)
        raise GenGiveUp(f"annotation {type(ann).__name__}")

    def instance_of(self, cls: Any, depth: int) -> Any:
        I = self.I
        if depth < -8:
            raise GenGiveUp("recursion")
        cands = [cls] if isinstance(cls, I.ConcreteClass) else []
        cands += list(cls.concrete_descendants)
        if not cands:
            raise GenGiveUp("no concrete class")
        c = cands[self.rng.randrange(len(cands))]
        py_cls = getattr(self.sdk.types, self.N.class_name(c.name))
        kwargs = {}
        props = {p.name: p for p in c.properties}
        for arg in c.constructor.arguments:
            prop = props.get(arg.name)
            ann = prop.type_annotation if prop is not None else arg.type_annotation
            kwargs[str(self.N.argument_name(arg.name))] = self.value(ann, depth)
        return py_cls(**kwargs)

    def root(self) -> Any:
        concrete = [t for t in self.sdk.symbol_table.our_types
                    if isinstance(t, self.I.ConcreteClass)]
        if not concrete:
            raise GenGiveUp("no concrete class in the model")
        c = concrete[self.rng.randrange(len(concrete))]
        return self.instance_of(c, self.rng.choice([1, 2, 3, 6]))


def equal(sdk: Sdk, a: Any, b: Any, path: str = "") -> Optional[str]:
    """Field-by-field comparison; returns the first difference or None."""
    if a is None or b is None:
        return None if (a is None and b is None) else f"{path}: {a!r} != {b!r}"
    if isinstance(a, float) or isinstance(b, float):
        if not (isinstance(a, float) and isinstance(b, float)):
            return f"{path}: type {type(a).__name__} != {type(b).__name__} ({a!r} vs {b!r})"
        if struct.pack("<d", a) != struct.pack("<d", b):
            if math.isnan(a) and math.isnan(b):
                return None
            return f"{path}: {a!r} != {b!r}"
        return None
    if isinstance(a, (bytes, bytearray)) or isinstance(b, (bytes, bytearray)):
        if not (isinstance(a, (bytes, bytearray)) and isinstance(b, (bytes, bytearray))):
            return f"{path}: type {type(a).__name__} != {type(b).__name__}"
        return None if bytes(a) == bytes(b) else f"{path}: {bytes(a)!r} != {bytes(b)!r}"
    if isinstance(a, (bool, int, str)):
        if type(a) is not type(b) or a != b:
            return f"{path}: {a!r} != {b!r}"
        return None
    if isinstance(a, list):
        if not isinstance(b, list) or len(a) != len(b):
            return f"{path}: list of {len(a)} != {b!r:.80}"
        for i, (x, y) in enumerate(zip(a, b)):
            d = equal(sdk, x, y, f"{path}[{i}]")
            if d:
                return d
        return None
    import enum

    if isinstance(a, enum.Enum):
        return None if a is b else f"{path}: {a!r} != {b!r}"
    if type(a) is not type(b):
        return f"{path}: class {type(a).__name__} != {type(b).__name__}"
    names = sorted(k for k in vars(a))
    if names != sorted(k for k in vars(b)):
        return f"{path}: attributes differ"
    for k in names:
        d = equal(sdk, getattr(a, k), getattr(b, k), f"{path}.{k}")
        if d:
            return d
    return None


def replace_tagged(obj: Any, cr: bool = True, empty_bytes: bool = True) -> Any:
    """Copy of the instance with every CR -> LF and/or every empty byte array -> b'\\0'."""
    import copy
    import enum

    def walk(v: Any) -> Any:
        if isinstance(v, str):
            return v.replace("\r\n", "\n").replace("\r", "\n") if cr else v
        if isinstance(v, (bytes, bytearray)):
            return bytearray(b"\0") if (len(v) == 0 and empty_bytes) else v
        if isinstance(v, list):
            return [walk(x) for x in v]
        if v is None or isinstance(v, (bool, int, float, enum.Enum)):
            return v
        c = copy.copy(v)
        for k, x in vars(v).items():
            setattr(c, k, walk(x))
        return c

    return walk(obj)
