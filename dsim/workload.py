"""Workload pieces shared by the engines: model text variants and the usable-pair table."""
from __future__ import annotations

import concurrent.futures
import multiprocessing
import os
import re
from typing import Any, Dict, List, Optional, Tuple

from dsim import repo

# --------------------------------------------------------------------------------------
# Text edits (each a pure function of the text)
# --------------------------------------------------------------------------------------

SEMANTIC_EDITS = ["version", "namespace"]
TRIVIA_EDITS = ["lead_blank", "lead_comment", "tail_comment", "tail_newline"]
NAMESPACE_TWINS = ["Tw", "tw", "TW", "T w", "T  w", "T\tw", "Tw\u00e9", "Tw\u00e8", "Tw\u200b", "Tw ", "Tw  ",
                   "Tw#x", "Tw#y"]
BREAKING_EDITS = ["syntax_error", "bad_import", "unknown_type"]


def apply_edit(text: str, edit: List[Any]) -> str:
    kind = edit[0]
    arg = edit[1] if len(edit) > 1 else None
    if kind == "lead_blank":
        return "\n" * int(arg or 1) + text
    if kind == "lead_comment":
        return "# verif padding line\n" * int(arg or 1) + text
    if kind == "tail_comment":
        return text + ("" if text.endswith("\n") else "\n") + f"# verif tail {arg}\n"
    if kind == "tail_newline":
        return text + "\n" * int(arg or 1)
    if kind == "version":
        new, n = re.subn(r'(?m)^__version__\s*=\s*"[^"]*"', f'__version__ = "v{arg}"', text)
        return new if n else text + f'\n# verif version {arg}\n'
    if kind == "namespace":
        new, n = re.subn(r'(?m)^__xml_namespace__\s*=\s*"[^"]*"',
                         f'__xml_namespace__ = "https://verif.example/{arg}"', text)
        return new if n else text + f'\n# verif namespace {arg}\n'
    if kind == "namespace_twin":
        # near-twins: texts that differ only in case, in the length of a whitespace run, in one
        # non-ASCII character or in trailing blanks *inside a string literal* - every one is
        # another model text (other "$id" / xmlns) that a normalising cache key would conflate
        twin = NAMESPACE_TWINS[int(arg or 0) % len(NAMESPACE_TWINS)]
        new, n = re.subn(r'(?m)^__xml_namespace__\s*=\s*"[^"]*"',
                         lambda _m: f'__xml_namespace__ = "https://verif.example/{twin}"', text)
        return new if n else text + f'\n# verif namespace {twin}\n'
    if kind == "syntax_error":
        return text + "\n\nclass 0verif_bad:\n    pass\n"
    if kind == "bad_import":
        return "import os\n" + text
    if kind == "unknown_type":
        return text + (
            "\n\nclass Verif_bad:\n    x: Verif_unknown_type\n\n"
            "    def __init__(self, x: Verif_unknown_type) -> None:\n        self.x = x\n"
        )
    if kind == "enum_values":
        return _exotic_enum_values(text, int(arg or 0))
    raise ValueError(f"unknown edit {edit!r}")


EXOTIC_VALUES = ["\U0001f600", "caf\u00e9", "\u6f22\u5b57", "with space", " lead", "trail ", "a\"b", "it's",
                 "back\\slash", "<tag>", "a&b", "tab\there", "\U0001d11e clef", "x\u0085y", "\u2028",
                 "{curly}", "%s", "\u00ff", "\U000e0041", "]]>", "semi;colon", "UPPER", "1", ""]


def _exotic_enum_values(text: str, salt: int) -> str:
    """Replace the values of the literals of every Enum class by exotic (unique) strings."""
    import random as _random

    rng = _random.Random(salt)
    out = []
    in_enum = False
    indent = None
    k = 0
    for line in text.split("\n"):
        m = re.match(r"^class \w+\((?:[\w.]+\.)?Enum\):", line)
        if m:
            in_enum, indent = True, None
            out.append(line)
            continue
        if in_enum:
            lm = re.match(r'^(\s+)([A-Za-z_][A-Za-z_0-9]*) = "((?:[^"\\\\]|\\\\.)*)"\s*$', line)
            if lm:
                k += 1
                base = EXOTIC_VALUES[rng.randrange(len(EXOTIC_VALUES))]
                value = f"{base}#{k}" if rng.random() < 0.8 else f"{k}{base}"
                out.append(f"{lm.group(1)}{lm.group(2)} = {_py_literal(value)}")
                continue
            if line.strip() and not line.startswith((" ", "\t")):
                in_enum = False
        out.append(line)
    return "\n".join(out)


def _py_literal(value: str) -> str:
    body = "".join(
        ch if (32 <= ord(ch) < 127 and ch not in '"\\') else
        ("\\" + ch if ch in '"\\' else
         (f"\\x{ord(ch):02x}" if ord(ch) < 256 else
          (f"\\u{ord(ch):04x}" if ord(ch) < 0x10000 else f"\\U{ord(ch):08x}")))
        for ch in value)
    return '"' + body + '"'


def materialise(spec: dict) -> str:
    """``{"model": corpus id, "edits": [[kind, arg], ...]}`` -> text."""
    text = None
    for m in repo.corpus(include_big=True):
        if m.id == spec["model"]:
            text = m.text
            break
    if text is None:
        if "text" in spec:
            text = spec["text"]
        else:
            raise KeyError(spec["model"])
    for edit in spec.get("edits", []):
        text = apply_edit(text, edit)
    return text


# --------------------------------------------------------------------------------------
# Usable (model, target) pairs: the fault-free reference returns normally
# --------------------------------------------------------------------------------------

# status: "ok" (rc 0), "reported" (rc != 0, stderr), "raises"
_TABLE: Optional[Dict[Tuple[str, str], str]] = None


def _status_of(args: Tuple[str, str]) -> Tuple[str, str, str, str]:
    mid, target = args
    text = materialise({"model": mid})
    ref = repo.reference(text, target)
    if ref.exc is not None:
        return mid, target, "raises", f"{ref.exc[0]}@{ref.exc[2]}"
    front_end = ref.err.startswith(("Failed to parse", "One or more unexpected imports",
                                    "Failed to construct the symbol table",
                                    "Failed to translate the parsed symbol table"))
    located = "located" if (re.search(r"\bline \d+", ref.err) and not front_end) else ""
    return mid, target, ("ok" if ref.rc == 0 else "reported"), located


_LOCATED: Dict[Tuple[str, str], bool] = {}
_RAISES: Dict[Tuple[str, str], str] = {}


def usable_table(jobs: Optional[int] = None) -> Dict[Tuple[str, str], str]:
    """Classify every small corpus model x target by its fault-free reference (parallel)."""
    global _TABLE
    if _TABLE is not None:
        return _TABLE
    repo.activate()
    pairs = [(m.id, t) for m in repo.corpus() for t in repo.TARGETS]
    table: Dict[Tuple[str, str], str] = {}
    nj = jobs or int(os.environ.get("VERIF_JOBS", "0") or 0) or min(12, os.cpu_count() or 4)
    ctx = multiprocessing.get_context("fork")
    with concurrent.futures.ProcessPoolExecutor(max_workers=nj, mp_context=ctx) as pool:
        for mid, target, status, extra in pool.map(_status_of, pairs, chunksize=16):
            table[(mid, target)] = status
            if status == "raises":
                _RAISES[(mid, target)] = extra
            elif extra:
                _LOCATED[(mid, target)] = True
    _TABLE = table
    return table


def pairs_with(status: str) -> List[Tuple[str, str]]:
    table = usable_table()
    return sorted(k for k, v in table.items() if v == status)


def located_pairs() -> List[Tuple[str, str]]:
    usable_table()
    return sorted(_LOCATED)


def raising_pairs() -> Dict[Tuple[str, str], str]:
    usable_table()
    return dict(_RAISES)
