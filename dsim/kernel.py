"""Deterministic simulation kernel for aas-core-codegen.

The real code under test runs in real threads ("actors" = simulated processes); the
kernel parks and releases them one at a time at *seams* (patched ``io.open``/``os.*``
functions), so that a seeded PRNG -- and nothing else -- decides who runs and which
fault fires where.  See DESIGN.md section 1.

Nothing in here draws from a PRNG or reads a clock in a logging path.
"""
from __future__ import annotations

import builtins
import errno as _errno
import hashlib
import io
import json
import os
import random
import shutil
import stat as _stat
import sys
import tempfile
import threading
import time
import traceback
import uuid
from typing import Any, Callable, Dict, List, Optional, Sequence, Tuple

# --------------------------------------------------------------------------------------
# Real functions, captured before anything is patched
# --------------------------------------------------------------------------------------

_REAL: Dict[str, Any] = {
    "io.open": io.open,
    "builtins.open": builtins.open,
    "FileIO": io.FileIO,
    "os.open": os.open,
    "os.close": os.close,
    "os.write": os.write,
    "os.read": os.read,
    "os.fsync": os.fsync,
    "os.stat": os.stat,
    "os.lstat": os.lstat,
    "os.mkdir": os.mkdir,
    "os.rename": os.rename,
    "os.replace": os.replace,
    "os.unlink": os.unlink,
    "os.remove": os.remove,
    "os.rmdir": os.rmdir,
    "os.link": os.link,
    "os.symlink": os.symlink,
    "os.truncate": os.truncate,
    "os.utime": os.utime,
    "os.chmod": os.chmod,
    "os.scandir": os.scandir,
    "os.listdir": os.listdir,
    "os.getpid": os.getpid,
    "uuid.uuid4": uuid.uuid4,
    "time.time": time.time,
    "time.monotonic": time.monotonic,
    "time.sleep": time.sleep,
}

try:  # pragma: no cover - always present on Linux
    import fcntl as _fcntl

    _REAL["fcntl.flock"] = _fcntl.flock
    _REAL["fcntl.lockf"] = _fcntl.lockf
except ImportError:  # pragma: no cover
    _fcntl = None  # type: ignore


class SimCrash(BaseException):
    """Unwinds an actor that the simulator killed (kill -9 of a simulated process)."""


class HarnessError(Exception):
    """The simulator itself could not do its job (never reported as a violation)."""


_tls = threading.local()


def current_actor() -> Optional["Actor"]:
    return getattr(_tls, "actor", None)


_ACTIVE: Optional["Sim"] = None  # the simulation currently running in this process

# --------------------------------------------------------------------------------------
# Sandbox
# --------------------------------------------------------------------------------------

_sandbox_counter = 0


def sandbox_base() -> str:
    base = os.environ.get("VERIF_SHM", "/dev/shm")
    if not os.path.isdir(base) or not os.access(base, os.W_OK):
        base = tempfile.gettempdir()
    return base


class Sandbox:
    """A per-run directory on tmpfs: the whole world of one simulated run."""

    ROLES = ("tmp", "out", "models", "snippets")

    def __init__(self, tag: str = "") -> None:
        global _sandbox_counter
        _sandbox_counter += 1
        self.root = os.path.join(
            sandbox_base(),
            f"aascg-sim-{_REAL['os.getpid']()}-{_sandbox_counter}{tag}",
        )
        if os.path.exists(self.root):
            shutil.rmtree(self.root)
        os.makedirs(self.root)
        for role in self.ROLES:
            os.mkdir(os.path.join(self.root, role))
        self._prefix = self.root + os.sep

    def path(self, *parts: str) -> str:
        return os.path.join(self.root, *parts)

    def classify(self, path: Any) -> Optional[Tuple[str, str]]:
        """Return (role, path relative to the sandbox root) or None if outside."""
        try:
            p = os.fspath(path)
        except TypeError:
            return None
        if isinstance(p, bytes):
            p = os.fsdecode(p)
        if not p.startswith(self._prefix):
            if p.startswith("/"):
                if p != self.root:
                    return None
            p = os.path.abspath(p)
            if not p.startswith(self._prefix):
                return None
        elif "/../" in p or "/./" in p or p.endswith("/..") or "//" in p:
            p = os.path.abspath(p)
            if not p.startswith(self._prefix):
                return None
        rel = p[len(self._prefix) :]
        role = rel.split(os.sep, 1)[0]
        return role, rel

    def cleanup(self) -> None:
        shutil.rmtree(self.root, ignore_errors=True)


# --------------------------------------------------------------------------------------
# Actors
# --------------------------------------------------------------------------------------


class Actor:
    """A simulated process: one real thread running real code, parked at seams."""

    def __init__(self, sim: "Sim", name: str, fn: Callable[[], Any], vpid: int) -> None:
        self.sim = sim
        self.name = name
        self.fn = fn
        self.vpid = vpid
        self.state = "new"  # new | parked | running | blocked | done | dead
        self.sem = threading.Semaphore(0)
        self.step = 0  # seam operations on fault/sched roles performed so far
        self.result: Any = None
        self.exc: Optional[Tuple[str, str, str]] = None
        self.crashed = False
        self.faulted: List[dict] = []  # non-crash faults this actor received
        self.uuid_rng = random.Random(f"{sim.seed_text}:uuid:{name}")
        self.audit: List[tuple] = []
        self.in_seam = 0
        self.thread: Optional[Any] = None
        self.waiting_lock: Optional[Any] = None
        self.log_outside = False

    def _main(self) -> None:
        _tls.actor = self
        self.sem.acquire()  # wait for the first baton
        try:
            if self.crashed:
                raise SimCrash()
            self.state = "running"
            self.result = self.fn()
            self.state = "done"
        except SimCrash:
            self.state = "dead"
        except BaseException as error:  # noqa - uncaught exception in code under test
            tb = traceback.extract_tb(error.__traceback__)
            where = ""
            for frame in reversed(tb):
                where = f"{os.path.basename(frame.filename)}:{frame.name}"
                if "aas_core_codegen" in frame.filename:
                    break
            self.exc = (type(error).__name__, str(error)[:500], where)
            self.state = "dead" if self.crashed else "done"
        finally:
            _tls.actor = None
            self.sim._actor_finished(self)


class _Worker:
    """A reusable OS thread (thread creation is very expensive in this sandbox)."""

    def __init__(self) -> None:
        self.job: Optional[Callable[[], None]] = None
        self.wake = threading.Semaphore(0)
        self.idle = threading.Event()
        self.thread = threading.Thread(target=self._loop, name="sim-worker", daemon=True)
        self.thread.start()

    def _loop(self) -> None:
        while True:
            self.wake.acquire()
            job, self.job = self.job, None
            try:
                if job is not None:
                    job()
            finally:
                self.idle.set()

    def submit(self, job: Callable[[], None]) -> None:
        self.idle.clear()
        self.job = job
        self.wake.release()

    def join(self, timeout: float) -> bool:
        return self.idle.wait(timeout)


_idle_workers: List[_Worker] = []
_workers_pid = 0


def _get_worker() -> _Worker:
    global _workers_pid
    pid = _REAL["os.getpid"]()
    if _workers_pid != pid:  # after fork the parent's threads are gone
        _idle_workers.clear()
        _workers_pid = pid
    if _idle_workers:
        return _idle_workers.pop()
    return _Worker()


# --------------------------------------------------------------------------------------
# Raw file with seams
# --------------------------------------------------------------------------------------


class SimRaw(io.RawIOBase):
    """A raw file whose every read/write/close is a seam."""

    def __init__(self, sim: "Sim", actor: Actor, real: Any, path: str, role: str,
                 rel: str, writable: bool) -> None:
        super().__init__()
        self._sim = sim
        self._owner = actor
        self._real = real
        self._path = path
        self._role = role
        self._rel = rel
        self._w = writable
        self._pending_errno: Optional[int] = None
        self.name = path
        self.mode = real.mode

    # -- plumbing
    def readable(self) -> bool:
        return self._real.readable()

    def writable(self) -> bool:
        return self._real.writable()

    def seekable(self) -> bool:
        return self._real.seekable()

    def fileno(self) -> int:
        return self._real.fileno()

    def isatty(self) -> bool:
        return False

    def seek(self, pos: int, whence: int = 0) -> int:
        return self._real.seek(pos, whence)

    def tell(self) -> int:
        return self._real.tell()

    def truncate(self, size: Optional[int] = None) -> int:
        if self._owner.crashed:
            return 0
        return self._real.truncate(size)

    @property
    def closed(self) -> bool:  # type: ignore[override]
        return self._real.closed

    # -- seams
    def readinto(self, b: Any) -> Optional[int]:
        sim, actor = self._sim, self._owner
        if actor.crashed or sim is not _ACTIVE:
            if actor.crashed:
                return 0
            return self._real.readinto(b)
        if current_actor() is not actor:
            return self._real.readinto(b)
        n = len(b)
        fault = sim.seam(actor, "read", self._role, self._rel, {"n": n})
        if fault is not None:
            kind = fault["fault"]
            if kind == "errno":
                raise OSError(fault["errno"], os.strerror(fault["errno"]), self._path)
            if kind == "short" and n > 1:
                k = max(1, min(n - 1, int(fault.get("k", 1))))
                view = memoryview(b)[:k]
                got = self._real.readinto(view)
                sim.note_outcome(got)
                return got
        if n > sim.max_io:
            b = memoryview(b)[: sim.max_io]
        got = self._real.readinto(b)
        sim.note_outcome(got)
        return got

    def readall(self) -> bytes:
        chunks = []
        while True:
            buf = bytearray(self._sim.bufsize if self._sim is _ACTIVE else 8192)
            got = self.readinto(buf)
            if not got:
                break
            chunks.append(bytes(buf[:got]))
        return b"".join(chunks)

    def write(self, b: Any) -> Optional[int]:
        sim, actor = self._sim, self._owner
        if actor.crashed:
            # A killed process writes nothing more; flush-on-close and finalisers
            # are silently without effect.
            return len(b)
        if sim is not _ACTIVE or current_actor() is not actor:
            return self._real.write(b)
        n = len(b)
        if self._pending_errno is not None:
            e = self._pending_errno
            self._pending_errno = None
            sim.seam(actor, "write", self._role, self._rel, {"n": n}, forced={
                "fault": "errno_cont", "errno": e})
            raise OSError(e, os.strerror(e), self._path)
        fault = sim.seam(actor, "write", self._role, self._rel, {"n": n})
        if fault is not None:
            kind = fault["fault"]
            if kind == "errno":
                k = int(fault.get("k", 0))
                if k <= 0 or n <= 1:
                    raise OSError(fault["errno"], os.strerror(fault["errno"]), self._path)
                k = min(k, n - 1)
                self._pending_errno = fault["errno"]
                done = self._real.write(memoryview(b)[:k])
                sim.note_outcome(done)
                return done
            if kind == "short" and n > 1:
                k = max(1, min(n - 1, int(fault.get("k", 1))))
                done = self._real.write(memoryview(b)[:k])
                sim.note_outcome(done)
                return done
            if kind == "torn":
                k = max(0, min(n - 1, int(fault.get("k", 0))))
                if k:
                    self._real.write(memoryview(b)[:k])
                sim.kill(actor)
                raise SimCrash()
        if n > sim.max_io:
            b = memoryview(b)[: sim.max_io]
        done = self._real.write(b)
        sim.note_outcome(done)
        return done

    def close(self) -> None:
        if self._real.closed:
            return
        sim, actor = self._sim, self._owner
        try:
            if not actor.crashed and sim is _ACTIVE and current_actor() is actor:
                fault = sim.seam(actor, "close_w" if self._w else "close_r",
                                 self._role, self._rel, {})
                if fault is not None and fault["fault"] == "errno":
                    raise OSError(fault["errno"], os.strerror(fault["errno"]), self._path)
        finally:
            fd = None
            try:
                fd = self._real.fileno()
            except Exception:
                pass
            self._real.close()
            if fd is not None and sim is _ACTIVE:
                sim.locks_release_fd(fd)
            try:
                super().close()
            except Exception:
                pass

    def __del__(self) -> None:  # keep finalisers silent
        try:
            if not self._real.closed:
                self._real.close()
        except Exception:
            pass


# --------------------------------------------------------------------------------------
# The simulation
# --------------------------------------------------------------------------------------

WRITE_KINDS = frozenset(
    ["open_w", "write", "close_w", "mkdir", "rename", "unlink", "rmdir", "link",
     "symlink", "truncate", "chmod", "utime"]
)


class Sim:
    """One simulated run.

    ``schedule``/``faults`` given -> replay; otherwise drawn from the PRNGs and recorded.
    """

    def __init__(
        self,
        sandbox: Sandbox,
        seed_text: str,
        sched_roles: Sequence[str] = ("tmp",),
        fault_roles: Sequence[str] = ("tmp",),
        policy: Optional[dict] = None,
        schedule: Optional[List[Optional[str]]] = None,
        faults: Optional[List[dict]] = None,
        fault_policy: Optional[Callable[["Sim", Actor, str, str, str, dict], Optional[dict]]] = None,
        bufsize: int = 8192,
        max_io: int = 1 << 30,
        step_cap: int = 20000,
        watchdog_s: float = 900.0,
        shuffle_listing: bool = True,
        same_pid: bool = False,
        epoch: float = 1_700_000_000.0,
    ) -> None:
        self.sandbox = sandbox
        self.seed_text = seed_text
        self.sched_roles = frozenset(sched_roles)
        self.fault_roles = frozenset(fault_roles)
        self.policy = policy or {"kind": "random"}
        self.replaying = schedule is not None
        self.replay_schedule = list(schedule) if schedule is not None else None
        self.replay_faults: Dict[Tuple[str, int], dict] = {}
        if faults is not None:
            for f in faults:
                self.replay_faults[(f["actor"], int(f["step"]))] = f
        self.replay_faults_given = faults is not None
        self.fault_policy = fault_policy
        self.bufsize = max(1, int(bufsize))
        self.max_io = max(1, int(max_io))
        self.step_cap = step_cap
        self.watchdog_s = watchdog_s
        self.shuffle_listing = shuffle_listing
        self.same_pid = same_pid

        self.rng_sched = random.Random(f"{seed_text}:sched")
        self.rng_fault = random.Random(f"{seed_text}:fault")
        self.rng_list = random.Random(f"{seed_text}:list")

        self.actors: List[Actor] = []
        self.by_name: Dict[str, Actor] = {}
        self.current: Optional[Actor] = None
        self.done_event = threading.Event()
        self.schedule_rec: List[Optional[str]] = []
        self.faults_fired: List[dict] = []
        self.trace: List[list] = []
        self.seq = 0
        self.sched_points = 0
        self.path_index: Dict[str, int] = {}
        self.bypasses: List[str] = []
        self.capped = False
        self.harness_error: Optional[str] = None
        self.fd_table: Dict[int, Tuple[str, str, str, Actor]] = {}
        self.lock_table: Dict[Tuple[int, int], Dict[str, Any]] = {}
        self.vclock = float(epoch)
        self.epoch = float(epoch)
        self.interleave_sig: List[str] = []
        self.probe: Dict[str, int] = {}
        self.priorities: Dict[str, float] = {}
        self._pct_changes: List[int] = []
        self._last_fault_outcome: Optional[list] = None
        self.phase_no = 0
        self.sticky: Dict[Tuple[str, str], dict] = {}
        self.sticky_hits = 0

    # -- actors ------------------------------------------------------------------------
    def spawn(self, name: str, fn: Callable[[], Any]) -> Actor:
        # separate PID namespaces (containers sharing a volume): every process may be PID 1
        vpid = 1 if self.same_pid else 1000 + len(self.actors)
        actor = Actor(self, name, fn, vpid=vpid)
        self.actors.append(actor)
        self.by_name[name] = actor
        return actor

    def run(self) -> None:
        """Run all actors spawned since the last call to completion (one phase)."""
        global _ACTIVE
        install_seams()
        if _ACTIVE is not None:
            raise HarnessError("nested simulation")
        phase = [a for a in self.actors if a.state == "new"]
        if not phase:
            return
        _ACTIVE = self
        old_tempdir = tempfile.tempdir
        tempfile.tempdir = self.sandbox.path("tmp")
        try:
            kind = self.policy.get("kind")
            if kind == "pct":
                names = [a.name for a in phase]
                self.rng_sched.shuffle(names)
                for i, n in enumerate(names):
                    self.priorities[n] = float(len(names) - i)
                horizon = int(self.policy.get("horizon", 200))
                d = int(self.policy.get("d", 2))
                self._pct_changes = sorted(
                    self.rng_sched.randrange(1, max(2, horizon)) for _ in range(d)
                )
            for a in phase:
                a.state = "parked"
                a.thread = _get_worker()
                a.thread.submit(a._main)
            self.done_event.clear()
            first = self._choose(None)
            assert first is not None
            self._handoff(first)
            if not self.done_event.wait(self.watchdog_s):
                self.harness_error = "watchdog: an actor blocked outside the simulator"
                try:
                    import faulthandler

                    faulthandler.dump_traceback(file=sys.stderr)
                except Exception:
                    pass
                raise HarnessError(self.harness_error)
            for a in phase:
                if a.thread is not None:
                    if a.thread.join(5.0):
                        _idle_workers.append(a.thread)
                    a.thread = None
            self.phase_no += 1
        finally:
            tempfile.tempdir = old_tempdir
            _ACTIVE = None

    # -- scheduling --------------------------------------------------------------------
    def _runnable(self) -> List[Actor]:
        out = []
        for a in self.actors:
            if a.state == "parked":
                out.append(a)
            elif a.state == "blocked" and self._lock_available(a):
                out.append(a)
        return out

    def _choose(self, me: Optional[Actor]) -> Optional[Actor]:
        runnable = self._runnable()
        if not runnable:
            return None
        self.sched_points += 1
        chosen: Optional[Actor] = None
        if self.replaying:
            want = None
            if self.replay_schedule:
                want = self.replay_schedule.pop(0)
            if want is not None:
                cand = self.by_name.get(want)
                if cand is not None and cand in runnable:
                    chosen = cand
            if chosen is None:
                chosen = me if (me is not None and me in runnable) else runnable[0]
        else:
            kind = self.policy.get("kind", "random")
            if len(runnable) == 1:
                chosen = runnable[0]
            elif kind == "random":
                chosen = runnable[self.rng_sched.randrange(len(runnable))]
            elif kind == "sticky":
                p = float(self.policy.get("p", 0.2))
                if me is not None and me in runnable and self.rng_sched.random() >= p:
                    chosen = me
                else:
                    chosen = runnable[self.rng_sched.randrange(len(runnable))]
            elif kind == "pct":
                while self._pct_changes and self._pct_changes[0] <= self.sched_points:
                    self._pct_changes.pop(0)
                    if me is not None:
                        self.priorities[me.name] = -float(self.sched_points)
                chosen = max(runnable, key=lambda a: self.priorities.get(a.name, 0.0))
            elif kind == "rr":
                if me is not None and me in runnable and len(runnable) > 1:
                    idx = (runnable.index(me) + 1) % len(runnable)
                    chosen = runnable[idx]
                else:
                    chosen = runnable[0]
            else:  # sequential
                chosen = me if (me is not None and me in runnable) else runnable[0]
        self.schedule_rec.append(chosen.name)
        return chosen

    def _handoff(self, to: Actor) -> None:
        self.current = to
        if to.state == "blocked":
            to.state = "parked"
        to.sem.release()

    def _actor_finished(self, actor: Actor) -> None:
        self.locks_release_actor(actor)
        nxt = self._choose(None)
        if nxt is None:
            if any(a.state == "blocked" for a in self.actors):
                self.harness_error = "deadlock on simulated locks"
            self.done_event.set()
        else:
            self._handoff(nxt)

    def yield_point(self, actor: Actor) -> None:
        """The actor is about to perform an operation on a shared path."""
        actor.state = "parked"
        nxt = self._choose(actor)
        assert nxt is not None
        if nxt is actor:
            actor.state = "running"
            return
        self._handoff(nxt)
        actor.sem.acquire()
        actor.state = "running"
        if actor.crashed:
            raise SimCrash()

    def kill(self, actor: Actor) -> None:
        actor.crashed = True
        self.locks_release_actor(actor)

    # -- seams -------------------------------------------------------------------------
    def _pidx(self, role: str, rel: str) -> str:
        idx = self.path_index.get(rel)
        if idx is None:
            idx = len(self.path_index)
            self.path_index[rel] = idx
        return f"{role}#{idx}"

    def note_outcome(self, value: Any) -> None:
        if self._last_fault_outcome is not None:
            self._last_fault_outcome.append(value)

    def seam(self, actor: Actor, kind: str, role: str, rel: str, info: dict,
             forced: Optional[dict] = None) -> Optional[dict]:
        """Called by an actor right before an operation takes effect.

        Returns the fault to apply (the caller implements it) or None.
        ``crash`` faults are applied here.
        """
        if actor.crashed:
            raise SimCrash()
        shared = role in self.sched_roles
        faultable = role in self.fault_roles
        if not shared and not faultable:
            return None
        actor.step += 1
        if actor.step > self.step_cap:
            self.capped = True
            self.kill(actor)
            raise SimCrash()
        if shared:
            self.yield_point(actor)
            self.interleave_sig.append(f"{actor.name}:{kind}")
        fault: Optional[dict] = forced
        if fault is None and faultable:
            if self.replay_faults_given:
                fault = self.replay_faults.get((actor.name, actor.step))
            elif self.fault_policy is not None:
                fault = self.fault_policy(self, actor, kind, role, rel, info)
        if fault is not None and not _fault_applies(fault, kind):
            fault = None
        if fault is None and faultable and (kind, rel) in self.sticky:
            # a persistent condition (read-only file, full disk): the same operation on the
            # same path keeps failing, however often the code retries
            fault = dict(self.sticky[(kind, rel)])
            forced = fault
            self.sticky_hits += 1
        elif fault is not None and fault.get("sticky") and fault["fault"] == "errno":
            self.sticky[(kind, rel)] = {"fault": "errno", "errno": fault["errno"]}
        self.seq += 1
        ev = [self.seq, actor.name, kind, self._pidx(role, rel),
              _fault_label(fault), info.get("n")]
        self.trace.append(ev)
        self._last_fault_outcome = ev
        if fault is not None:
            rec = dict(fault)
            rec["actor"] = actor.name
            rec["step"] = actor.step
            rec["op"] = kind
            if forced is None:
                self.faults_fired.append(rec)
            if fault["fault"] == "crash":
                self.kill(actor)
                raise SimCrash()
            if fault["fault"] in ("errno", "errno_cont"):
                actor.faulted.append(rec)
        return fault

    # -- simulated advisory locks ----------------------------------------------------------
    def _lock_key(self, fd: int) -> Tuple[int, int]:
        st = os.fstat(fd)
        return (st.st_dev, st.st_ino)

    def _lock_available(self, actor: Actor) -> bool:
        want = actor.waiting_lock
        if want is None:
            return True
        key, exclusive = want
        ent = self.lock_table.get(key)
        if ent is None or not ent["holders"]:
            return True
        others = {h for h in ent["holders"] if h != actor.name}
        if not others:
            return True
        if exclusive:
            return False
        return not ent["exclusive"]

    def lock(self, actor: Actor, fd: int, exclusive: bool, blocking: bool) -> None:
        key = self._lock_key(fd)
        actor.waiting_lock = (key, exclusive)
        while not self._lock_available(actor):
            if not blocking:
                actor.waiting_lock = None
                raise BlockingIOError(_errno.EWOULDBLOCK, "Resource temporarily unavailable")
            actor.state = "blocked"
            nxt = self._choose(None)
            if nxt is None:
                self.harness_error = "deadlock on simulated locks"
                self.kill(actor)
                self.done_event.set()
                raise SimCrash()
            self._handoff(nxt)
            actor.sem.acquire()
            actor.state = "running"
            if actor.crashed:
                raise SimCrash()
        actor.waiting_lock = None
        ent = self.lock_table.setdefault(key, {"holders": {}, "exclusive": False})
        ent["holders"][actor.name] = fd
        ent["exclusive"] = exclusive

    def unlock(self, actor: Actor, fd: int) -> None:
        key = self._lock_key(fd)
        ent = self.lock_table.get(key)
        if ent is not None:
            ent["holders"].pop(actor.name, None)

    def locks_release_fd(self, fd: int) -> None:
        for ent in self.lock_table.values():
            for name, held_fd in list(ent["holders"].items()):
                if held_fd == fd:
                    del ent["holders"][name]

    def locks_release_actor(self, actor: Actor) -> None:
        for ent in self.lock_table.values():
            ent["holders"].pop(actor.name, None)

    # -- results ---------------------------------------------------------------------------
    def digest(self) -> str:
        h = hashlib.sha256()
        h.update(json.dumps(self.trace, separators=(",", ":")).encode())
        h.update(json.dumps(self.schedule_rec).encode())
        return h.hexdigest()

    def interleaving_digest(self) -> str:
        return hashlib.sha256("|".join(self.interleave_sig).encode()).hexdigest()[:16]


def _fault_label(fault: Optional[dict]) -> Optional[str]:
    if fault is None:
        return None
    label = fault["fault"]
    if "errno" in fault:
        label += ":" + _errno.errorcode.get(fault["errno"], str(fault["errno"]))
    if "k" in fault:
        label += f":{fault['k']}"
    return label


def _fault_applies(fault: dict, kind: str) -> bool:
    f = fault["fault"]
    if f in ("crash", "errno", "errno_cont"):
        return True
    if f == "torn":
        return kind == "write"
    if f == "short":
        return kind in ("write", "read")
    return False


# --------------------------------------------------------------------------------------
# Patched functions
# --------------------------------------------------------------------------------------

_installed = False


def _ctx(path: Any) -> Optional[Tuple["Sim", Actor, str, str]]:
    sim = _ACTIVE
    if sim is None:
        return None
    actor = getattr(_tls, "actor", None)
    if actor is None or actor.sim is not sim:
        return None
    if isinstance(path, int):
        return None
    cls = sim.sandbox.classify(path)
    if cls is None:
        return None
    return sim, actor, cls[0], cls[1]


def _raise_errno(fault: dict, path: Any) -> None:
    raise OSError(fault["errno"], os.strerror(fault["errno"]), os.fspath(path))


def _p_open(file: Any, mode: str = "r", buffering: int = -1, encoding: Any = None,
            errors: Any = None, newline: Any = None, closefd: bool = True,
            opener: Any = None) -> Any:
    sim = _ACTIVE
    if sim is None:
        return _REAL["io.open"](file, mode, buffering, encoding, errors, newline, closefd, opener)
    actor = getattr(_tls, "actor", None)
    if actor is None or actor.sim is not sim:
        return _REAL["io.open"](file, mode, buffering, encoding, errors, newline, closefd, opener)
    path: Optional[str] = None
    role = rel = ""
    if isinstance(file, int):
        ent = sim.fd_table.get(file)
        if ent is None:
            return _REAL["io.open"](file, mode, buffering, encoding, errors, newline, closefd, opener)
        path, role, rel, _ = ent
    else:
        cls = sim.sandbox.classify(file)
        if cls is None:
            return _REAL["io.open"](file, mode, buffering, encoding, errors, newline, closefd, opener)
        role, rel = cls
        path = os.fspath(file)
        if isinstance(path, bytes):
            path = os.fsdecode(path)
    if role not in sim.sched_roles and role not in sim.fault_roles:
        return _REAL["io.open"](file, mode, buffering, encoding, errors, newline, closefd, opener)

    if not isinstance(mode, str):
        raise TypeError("invalid mode: %r" % mode)
    modes = set(mode)
    if modes - set("axrwb+tU") or len(mode) > len(modes):
        raise ValueError("invalid mode: %r" % mode)
    creating = "x" in modes
    reading = "r" in modes
    writing = "w" in modes
    appending = "a" in modes
    updating = "+" in modes
    text = "t" in modes
    binary = "b" in modes
    if text and binary:
        raise ValueError("can't have text and binary mode at once")
    if creating + reading + writing + appending > 1:
        raise ValueError("can't have read/write/append mode at once")
    if not (creating or reading or writing or appending):
        raise ValueError("must have exactly one of read/write/append mode")
    if binary and encoding is not None:
        raise ValueError("binary mode doesn't take an encoding argument")
    if binary and errors is not None:
        raise ValueError("binary mode doesn't take an errors argument")
    if binary and newline is not None:
        raise ValueError("binary mode doesn't take a newline argument")
    rawmode = (
        (creating and "x" or "") + (reading and "r" or "") + (writing and "w" or "")
        + (appending and "a" or "") + (updating and "+" or "")
    )
    is_w = creating or writing or appending or updating
    if not isinstance(file, int):
        actor.in_seam += 1
        try:
            fault = sim.seam(actor, "open_w" if is_w else "open_r", role, rel, {})
            if fault is not None and fault["fault"] == "errno":
                _raise_errno(fault, file)
            real = _REAL["FileIO"](file, rawmode, closefd, opener)
        finally:
            actor.in_seam -= 1
    else:
        real = _REAL["FileIO"](file, rawmode, closefd, opener)
    raw = SimRaw(sim, actor, real, path, role, rel, is_w)
    try:
        if buffering == 0:
            if binary:
                return raw
            raise ValueError("can't have unbuffered text I/O")
        line_buffering = False
        if buffering == 1 and not binary:
            buffering = -1
            line_buffering = True
        if buffering < 0 or buffering == 1:
            buffering = sim.bufsize
        if updating:
            buffer: Any = io.BufferedRandom(raw, buffering)
        elif is_w:
            buffer = io.BufferedWriter(raw, buffering)
        else:
            buffer = io.BufferedReader(raw, buffering)
        if binary:
            return buffer
        wrapper = io.TextIOWrapper(buffer, encoding, errors, newline, line_buffering)
        wrapper.mode = mode  # type: ignore[misc]
        return wrapper
    except BaseException:
        real.close()
        raise


def _simple(name: str, kind: str, path_arg: int = 0, second_path: Optional[int] = None):
    real = _REAL[name]

    def patched(*args: Any, **kwargs: Any) -> Any:
        sim = _ACTIVE
        if sim is None or not args:
            return real(*args, **kwargs)
        if kwargs.get("dir_fd") is not None or kwargs.get("src_dir_fd") is not None:
            return real(*args, **kwargs)
        c = _ctx(args[path_arg])
        c2 = None
        if second_path is not None and len(args) > second_path:
            c2 = _ctx(args[second_path])
        use = c or c2
        if use is None:
            return real(*args, **kwargs)
        sim, actor, role, rel = use
        if c is not None and c2 is not None and c2[2] in sim.sched_roles:
            role, rel = c2[2], c2[3]
            if kind == "rename":
                rel = c[3] + "->" + c2[3]
        actor.in_seam += 1
        try:
            fault = sim.seam(actor, kind, role, rel, {})
            if fault is not None and fault["fault"] == "errno":
                _raise_errno(fault, args[path_arg])
            try:
                result = real(*args, **kwargs)
            except OSError as error:
                sim.note_outcome(_errno.errorcode.get(error.errno or 0, "E?"))
                raise
            if kind == "stat":
                sim.note_outcome("ok")
            return result
        finally:
            actor.in_seam -= 1

    patched.__name__ = real.__name__
    patched.__doc__ = real.__doc__
    return patched


class _ListedDir:
    """``os.scandir`` result with a seeded order (real DirEntry objects)."""

    def __init__(self, entries: List[Any]) -> None:
        self._entries = entries
        self._it = iter(entries)

    def __iter__(self) -> "_ListedDir":
        return self

    def __next__(self) -> Any:
        return next(self._it)

    def close(self) -> None:
        self._it = iter(())

    def __enter__(self) -> "_ListedDir":
        return self

    def __exit__(self, *args: Any) -> None:
        self.close()


def _p_scandir(path: Any = None) -> Any:
    real = _REAL["os.scandir"]
    if path is None:
        return real()
    c = _ctx(path)
    if c is None:
        return real(path)
    sim, actor, role, rel = c
    actor.in_seam += 1
    try:
        fault = sim.seam(actor, "scandir", role, rel, {})
        if fault is not None and fault["fault"] == "errno":
            _raise_errno(fault, path)
        with real(path) as it:
            entries = list(it)
    finally:
        actor.in_seam -= 1
    entries.sort(key=lambda e: e.name if isinstance(e.name, str) else os.fsdecode(e.name))
    if sim.shuffle_listing:
        sim.rng_list.shuffle(entries)
    return _ListedDir(entries)


def _p_listdir(path: Any = None) -> Any:
    real = _REAL["os.listdir"]
    if path is None:
        return real()
    c = _ctx(path)
    if c is None:
        return real(path)
    sim, actor, role, rel = c
    actor.in_seam += 1
    try:
        fault = sim.seam(actor, "listdir", role, rel, {})
        if fault is not None and fault["fault"] == "errno":
            _raise_errno(fault, path)
        names = real(path)
    finally:
        actor.in_seam -= 1
    names.sort(key=lambda n: n if isinstance(n, str) else os.fsdecode(n))
    if sim.shuffle_listing:
        sim.rng_list.shuffle(names)
    return names


def _p_os_open(path: Any, flags: int, mode: int = 0o777, *, dir_fd: Any = None) -> int:
    real = _REAL["os.open"]
    c = _ctx(path) if dir_fd is None else None
    if c is None:
        if dir_fd is None:
            return real(path, flags, mode)
        return real(path, flags, mode, dir_fd=dir_fd)
    sim, actor, role, rel = c
    is_w = bool(flags & (os.O_WRONLY | os.O_RDWR | os.O_CREAT | os.O_TRUNC | os.O_APPEND))
    actor.in_seam += 1
    try:
        fault = sim.seam(actor, "open_w" if is_w else "open_r", role, rel, {})
        if fault is not None and fault["fault"] == "errno":
            _raise_errno(fault, path)
        fd = real(path, flags, mode)
    finally:
        actor.in_seam -= 1
    p = os.fspath(path)
    if isinstance(p, bytes):
        p = os.fsdecode(p)
    sim.fd_table[fd] = (p, role, rel, actor)
    return fd


def _p_os_close(fd: int) -> None:
    sim = _ACTIVE
    if sim is not None and fd in sim.fd_table:
        sim.fd_table.pop(fd, None)
        sim.locks_release_fd(fd)
    return _REAL["os.close"](fd)


def _p_os_write(fd: int, data: Any) -> int:
    sim = _ACTIVE
    if sim is None or fd not in sim.fd_table:
        return _REAL["os.write"](fd, data)
    actor = getattr(_tls, "actor", None)
    path, role, rel, owner = sim.fd_table[fd]
    if owner.crashed:
        return len(data)
    if actor is None:
        return _REAL["os.write"](fd, data)
    n = len(data)
    fault = sim.seam(actor, "write", role, rel, {"n": n})
    if fault is not None:
        if fault["fault"] == "errno":
            raise OSError(fault["errno"], os.strerror(fault["errno"]))
        if fault["fault"] == "torn":
            k = max(0, min(n - 1, int(fault.get("k", 0))))
            if k:
                _REAL["os.write"](fd, bytes(data)[:k])
            sim.kill(actor)
            raise SimCrash()
        if fault["fault"] == "short" and n > 1:
            k = max(1, min(n - 1, int(fault.get("k", 1))))
            return _REAL["os.write"](fd, bytes(data)[:k])
    return _REAL["os.write"](fd, data)


def _p_getpid() -> int:
    actor = getattr(_tls, "actor", None)
    if actor is None or _ACTIVE is None:
        return _REAL["os.getpid"]()
    return actor.vpid


def _p_uuid4() -> uuid.UUID:
    actor = getattr(_tls, "actor", None)
    if actor is None or _ACTIVE is None:
        return _REAL["uuid.uuid4"]()
    return uuid.UUID(int=actor.uuid_rng.getrandbits(128), version=4)


def _p_time() -> float:
    sim = _ACTIVE
    actor = getattr(_tls, "actor", None)
    if sim is None or actor is None:
        return _REAL["time.time"]()
    sim.vclock += 0.001
    return sim.vclock


def _p_monotonic() -> float:
    sim = _ACTIVE
    actor = getattr(_tls, "actor", None)
    if sim is None or actor is None:
        return _REAL["time.monotonic"]()
    sim.vclock += 0.001
    return sim.vclock - sim.epoch + 1000.0


def _p_sleep(seconds: float) -> None:
    sim = _ACTIVE
    actor = getattr(_tls, "actor", None)
    if sim is None or actor is None:
        return _REAL["time.sleep"](seconds)
    sim.vclock += max(0.0, float(seconds))
    actor.step += 1
    if actor.step > sim.step_cap:
        sim.capped = True
        sim.kill(actor)
        raise SimCrash()
    sim.yield_point(actor)


def _clock_active() -> bool:
    return _ACTIVE is not None and getattr(_tls, "actor", None) is not None


def _wrap_time_struct(name: str) -> Any:
    real = getattr(time, name)

    def patched(*args: Any) -> Any:
        if _clock_active() and (not args or args[0] is None):
            return real(_p_time())
        return real(*args)

    patched.__name__ = name
    return patched


def _p_strftime(fmt: str, *args: Any) -> str:
    if _clock_active() and not args:
        return _REAL["time.strftime"](fmt, _REAL["time.localtime"](_p_time()))
    return _REAL["time.strftime"](fmt, *args)


def _p_time_ns() -> int:
    if _clock_active():
        return int(_p_time() * 1e9)
    return _REAL["time.time_ns"]()


import datetime as _datetime  # noqa: E402

_REAL_DATETIME = _datetime.datetime
_REAL_DATE = _datetime.date


class _SimDateTime(_REAL_DATETIME):
    """datetime.datetime whose now/utcnow/today read the simulated clock inside an actor."""

    @classmethod
    def now(cls, tz: Any = None) -> Any:  # type: ignore[override]
        if _clock_active():
            return _REAL_DATETIME.fromtimestamp(_p_time(), tz)
        return _REAL_DATETIME.now(tz)

    @classmethod
    def utcnow(cls) -> Any:  # type: ignore[override]
        if _clock_active():
            return _REAL_DATETIME.fromtimestamp(_p_time(), _datetime.timezone.utc).replace(tzinfo=None)
        return _REAL_DATETIME.utcnow()

    @classmethod
    def today(cls) -> Any:  # type: ignore[override]
        return cls.now()


class _SimDate(_REAL_DATE):
    @classmethod
    def today(cls) -> Any:  # type: ignore[override]
        if _clock_active():
            return _REAL_DATE.fromtimestamp(_p_time())
        return _REAL_DATE.today()


def _p_flock(fd: Any, operation: int) -> None:
    sim = _ACTIVE
    actor = getattr(_tls, "actor", None)
    if sim is None or actor is None:
        return _REAL["fcntl.flock"](fd, operation)
    if not isinstance(fd, int):
        fd = fd.fileno()
    if operation & _fcntl.LOCK_UN:
        sim.unlock(actor, fd)
        return None
    sim.lock(actor, fd, bool(operation & _fcntl.LOCK_EX), not (operation & _fcntl.LOCK_NB))
    return None


def _p_lockf(fd: Any, cmd: int, *args: Any) -> None:
    return _p_flock(fd, cmd)


_AUDITED = frozenset(
    ["open", "os.rename", "os.remove", "os.mkdir", "os.rmdir", "os.scandir", "os.listdir",
     "os.truncate", "os.link", "os.symlink", "os.chmod", "os.utime", "shutil.copyfile",
     "shutil.move", "shutil.rmtree", "shutil.copytree", "tempfile.mkstemp",
     "tempfile.mkdtemp", "compile"]
)


_W_FLAGS = os.O_WRONLY | os.O_RDWR | os.O_CREAT | os.O_TRUNC | os.O_APPEND


def _open_is_write(args: tuple) -> bool:
    mode = args[1] if len(args) > 1 else None
    flags = args[2] if len(args) > 2 else 0
    if isinstance(mode, str) and any(c in mode for c in "wax+"):
        return True
    return bool(isinstance(flags, int) and flags & _W_FLAGS)


def _audit(event: str, args: tuple) -> None:
    if event not in _AUDITED:
        return
    sim = _ACTIVE
    if sim is None:
        return
    actor = getattr(_tls, "actor", None)
    if actor is None or actor.sim is not sim:
        return
    if event == "compile":
        src = args[0] if args else None
        if isinstance(src, (bytes, str)) and len(src) > 0:
            if isinstance(src, str):
                src = src.encode("utf-8", "surrogatepass")
            actor.audit.append(("compile", hashlib.sha256(src).hexdigest(), len(src)))
        return
    if not args:
        return
    touched = []
    for a in args[:2]:
        if isinstance(a, (str, bytes)) or hasattr(a, "__fspath__"):
            cls = sim.sandbox.classify(a)
            if cls is not None:
                touched.append(cls)
    if not touched:
        if actor.log_outside and (event != "open" or _open_is_write(args)):
            a0 = args[0]
            if isinstance(a0, (str, bytes)) or hasattr(a0, "__fspath__"):
                p0 = os.fspath(a0)
                if isinstance(p0, bytes):
                    p0 = os.fsdecode(p0)
                if "__pycache__" not in p0 and p0 != os.devnull:
                    actor.audit.append((event, "outside", p0, None))
        return
    if actor.crashed:
        # kill switch: a dead process has no further effect on the file system
        raise SimCrash()
    extra: Any = None
    if event == "open":
        extra = "w" if _open_is_write(args) else "r"
    for role, rel in touched:
        actor.audit.append((event, role, rel, extra))
        if actor.in_seam == 0 and (role in sim.sched_roles or role in sim.fault_roles):
            if "__pycache__" not in rel and len(sim.bypasses) < 50:
                sim.bypasses.append(f"{event}:{role}")


def install_seams() -> None:
    global _installed
    if _installed:
        return
    _installed = True
    io.open = _p_open  # type: ignore[assignment]
    builtins.open = _p_open  # type: ignore[assignment]
    os.open = _p_os_open  # type: ignore[assignment]
    os.close = _p_os_close  # type: ignore[assignment]
    os.write = _p_os_write  # type: ignore[assignment]
    os.stat = _simple("os.stat", "stat")  # type: ignore[assignment]
    os.lstat = _simple("os.lstat", "stat")  # type: ignore[assignment]
    os.mkdir = _simple("os.mkdir", "mkdir")  # type: ignore[assignment]
    os.rename = _simple("os.rename", "rename", 0, 1)  # type: ignore[assignment]
    os.replace = _simple("os.replace", "rename", 0, 1)  # type: ignore[assignment]
    os.unlink = _simple("os.unlink", "unlink")  # type: ignore[assignment]
    os.remove = _simple("os.remove", "unlink")  # type: ignore[assignment]
    os.rmdir = _simple("os.rmdir", "rmdir")  # type: ignore[assignment]
    os.link = _simple("os.link", "link", 0, 1)  # type: ignore[assignment]
    os.symlink = _simple("os.symlink", "symlink", 1, 0)  # type: ignore[assignment]
    os.truncate = _simple("os.truncate", "truncate")  # type: ignore[assignment]
    os.utime = _simple("os.utime", "utime")  # type: ignore[assignment]
    os.chmod = _simple("os.chmod", "chmod")  # type: ignore[assignment]
    os.scandir = _p_scandir  # type: ignore[assignment]
    os.listdir = _p_listdir  # type: ignore[assignment]
    os.getpid = _p_getpid  # type: ignore[assignment]
    uuid.uuid4 = _p_uuid4  # type: ignore[assignment]
    time.time = _p_time  # type: ignore[assignment]
    time.monotonic = _p_monotonic  # type: ignore[assignment]
    time.sleep = _p_sleep  # type: ignore[assignment]
    for name in ("localtime", "gmtime", "ctime"):
        _REAL["time." + name] = getattr(time, name)
        setattr(time, name, _wrap_time_struct(name))
    _REAL["time.strftime"] = time.strftime
    time.strftime = _p_strftime  # type: ignore[assignment]
    _REAL["time.time_ns"] = time.time_ns
    time.time_ns = _p_time_ns  # type: ignore[assignment]
    _datetime.datetime = _SimDateTime  # type: ignore[misc]
    _datetime.date = _SimDate  # type: ignore[misc]
    if _fcntl is not None:
        _fcntl.flock = _p_flock  # type: ignore[assignment]
        _fcntl.lockf = _p_lockf  # type: ignore[assignment]
    sys.addaudithook(_audit)


def real_open(*args: Any, **kwargs: Any) -> Any:
    return _REAL["io.open"](*args, **kwargs)
