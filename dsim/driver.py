"""Generic check driver: seeded batch of simulated runs over a process pool, minimisation,
replay files, known findings, determinism self-test, evidence.

An *engine* is a module with

    PROPERTY_IDS : list of property ids it serves (the first is the primary one)
    LEVEL        : evidence level
    tiers        : dict tier -> {"runs": int, ...}
    gen_plan(seed, run, tier) -> plan (a JSON-able dict; the complete description of a run)
    execute(plan) -> outcome dict:
         {"plan": plan filled with the recorded schedule/faults (the replay file content),
          "violations": [{"property":..., "class":..., "detail":...}],
          "digest": str, "stats": {...counters...}, "distinct": [str...],
          "inconclusive": Optional[str], "sample": Optional[json]}
    reductions(plan) -> iterator of smaller plans
    describe() -> dict with "rule", "real", "stub", "assumptions"
"""
from __future__ import annotations

import collections
import concurrent.futures
import copy
import faulthandler
import hashlib
import json
import multiprocessing
import os
import subprocess
import sys
import time
import traceback
from typing import Any, Dict, Iterator, List, Optional, Tuple

VERIF = os.path.dirname(os.path.dirname(os.path.abspath(__file__)))
PYTHON = sys.executable
# where evidence/ and replays/ are written (redirected by the self-tests so that runs against
# mutated scratch copies never overwrite the real evidence)
OUT = os.environ.get("VERIF_OUT", VERIF)


def base_seed() -> int:
    try:
        return int(os.environ.get("VERIF_SEED", "0"))
    except ValueError:
        return int(hashlib.sha256(os.environ["VERIF_SEED"].encode()).hexdigest()[:8], 16)


def jobs() -> int:
    try:
        return max(1, int(os.environ.get("VERIF_JOBS", "0")) or min(12, os.cpu_count() or 4))
    except ValueError:
        return min(12, os.cpu_count() or 4)


# --------------------------------------------------------------------------------------
# known findings
# --------------------------------------------------------------------------------------


def load_known() -> List[dict]:
    path = os.path.join(VERIF, "known_findings.json")
    if not os.path.exists(path):
        return []
    with open(path, encoding="utf-8") as f:
        data = json.load(f)
    return [e for e in data.get("findings", []) if e.get("status") == "known"]


def match_known(violation: dict, known: List[dict]) -> Optional[dict]:
    for entry in known:
        if entry.get("property") != violation.get("property"):
            continue
        if entry.get("class") != violation.get("class"):
            continue
        keys = entry.get("match", {})
        ok = True
        for k, v in keys.items():
            if violation.get("key", {}).get(k) != v:
                ok = False
                break
        if ok:
            return entry
    return None


# --------------------------------------------------------------------------------------
# worker
# --------------------------------------------------------------------------------------

_ENGINE = None


def _load_engine(name: str) -> Any:
    global _ENGINE
    if _ENGINE is None or _ENGINE.__name__ != f"engines.{name}":
        import importlib

        _ENGINE = importlib.import_module(f"engines.{name}")
    return _ENGINE


def _run_chunk(args: Tuple[str, int, str, List[int], float]) -> dict:
    engine_name, seed, tier, runs, deadline = args
    faulthandler.enable()
    engine = _load_engine(engine_name)
    agg: Dict[str, Any] = {
        "runs": 0, "stats": collections.Counter(), "distinct": set(), "violations": [],
        "inconclusive": collections.Counter(), "samples": [], "digests": {},
        "harness_errors": [], "skipped_deadline": 0,
    }
    for run in runs:
        if time.time() > deadline:
            agg["skipped_deadline"] += 1
            continue
        try:
            plan = engine.gen_plan(seed, run, tier)
            out = engine.execute(plan)
        except Exception as error:  # harness problem, never a verdict
            agg["harness_errors"].append(
                f"run {run}: {type(error).__name__}: {error}\n{traceback.format_exc()[-1500:]}")
            continue
        agg["runs"] += 1
        agg["stats"].update(out.get("stats", {}))
        for d in out.get("distinct", []):
            agg["distinct"].add(d)
        if out.get("inconclusive"):
            agg["inconclusive"][out["inconclusive"]] += 1
        if out.get("violations") and len(agg["violations"]) < 40:
            agg["violations"].append({"run": run, "violations": out["violations"],
                                      "plan": out["plan"]})
        elif out.get("violations"):
            agg["stats"]["violations_not_kept"] += 1
        if out.get("sample") is not None and len(agg["samples"]) < 2:
            agg["samples"].append(out["sample"])
        if out.get("digest") is not None and (run % 97 == 0 or len(agg["digests"]) < 1):
            agg["digests"][run] = out["digest"]
    agg["stats"] = dict(agg["stats"])
    agg["inconclusive"] = dict(agg["inconclusive"])
    agg["distinct"] = list(agg["distinct"])
    return agg


# --------------------------------------------------------------------------------------
# minimisation
# --------------------------------------------------------------------------------------


def _classes(out: dict) -> List[Tuple[str, str]]:
    return [(v["property"], v["class"]) for v in out.get("violations", [])]


def minimise(engine: Any, plan: dict, target: Tuple[str, str], budget_s: float = 90.0,
             max_exec: int = 400) -> Tuple[dict, int]:
    """Greedy reduction of ``plan`` while a violation of class ``target`` persists."""
    t0 = time.time()
    n_exec = 0
    best = plan
    improved = True
    while improved and time.time() - t0 < budget_s and n_exec < max_exec:
        improved = False
        for cand in engine.reductions(best):
            if time.time() - t0 > budget_s or n_exec >= max_exec:
                break
            n_exec += 1
            try:
                out = engine.execute(copy.deepcopy(cand))
            except Exception:
                continue
            if target in _classes(out):
                best = out["plan"]
                improved = True
                break
    return best, n_exec


# --------------------------------------------------------------------------------------
# main entry
# --------------------------------------------------------------------------------------


def write_json(path: str, data: Any) -> None:
    os.makedirs(os.path.dirname(path), exist_ok=True)
    tmp = path + ".part"
    with open(tmp, "w", encoding="utf-8") as f:
        json.dump(data, f, indent=1, sort_keys=False, default=str)
        f.write("\n")
    os.replace(tmp, path)


def validate_evidence(data: dict) -> Optional[str]:
    schema_path = "/root/.vp/EVIDENCE.schema.json"
    if not os.path.exists(schema_path):
        schema_path = os.path.join(VERIF, "schemas", "EVIDENCE.schema.json")
    try:
        import jsonschema

        with open(schema_path) as f:
            schema = json.load(f)
        jsonschema.validate(data, schema)
    except ImportError:
        return None
    except Exception as error:  # noqa
        return str(error)[:500]
    return None


def replay_file(engine_name: str, path: str) -> int:
    """Re-execute a replay file; exit 1 with a VIOLATION line if it reproduces."""
    engine = _load_engine(engine_name)
    with open(path, encoding="utf-8") as f:
        doc = json.load(f)
    plan = doc["plan"]
    out = engine.execute(copy.deepcopy(plan))
    expect = tuple(doc.get("expect", [])) or None
    got = _classes(out)
    known = load_known()
    if got:
        for v in out["violations"]:
            print(f"  violation: property={v['property']} class={v['class']} {v.get('detail', '')[:600]}")
        if expect is not None and expect not in got:
            print(f"REPLAY-MISMATCH expected {expect} got {got}")
        all_known = all(match_known(v, known) is not None for v in out["violations"])
        if all_known:
            for v in out["violations"]:
                print(f"KNOWN-FINDING: property={v['property']} {v['class']}")
            return 0
        for prop in sorted(set(p for p, _ in got)):
            print(f"VIOLATION property={prop} replay={path}")
        return 1
    print(f"replay of {path}: no violation (digest {out.get('digest')})")
    return 0


def digests_for(engine_name: str, seed: int, tier: str, runs: List[int]) -> Dict[str, str]:
    engine = _load_engine(engine_name)
    out = {}
    for run in runs:
        plan = engine.gen_plan(seed, run, tier)
        out[str(run)] = engine.execute(plan).get("digest")
    return out


def run_check(engine_name: str, tier: str, runs_override: Optional[int] = None,
              wall_cap: Optional[float] = None) -> int:
    t0 = time.time()
    engine = _load_engine(engine_name)
    seed = base_seed()
    if hasattr(engine, "prepare"):
        engine.prepare(tier)
    cfg = dict(engine.tiers[tier])
    n_runs = runs_override if runs_override is not None else int(cfg["runs"])
    cap = wall_cap if wall_cap is not None else float(cfg.get("wall_cap_s", 3600))
    deadline = t0 + cap
    nj = jobs()
    chunk = max(1, min(int(cfg.get("chunk", 50)), (n_runs + nj * 4 - 1) // (nj * 4)))
    chunks = [list(range(i, min(n_runs, i + chunk))) for i in range(0, n_runs, chunk)]
    print(f"[{engine_name}] tier={tier} seed={seed} runs={n_runs} jobs={nj} repo={os.environ.get('VERIF_REPO', '/repo')}",
          flush=True)

    total: Dict[str, Any] = {
        "runs": 0, "stats": collections.Counter(), "distinct": set(), "violations": [],
        "inconclusive": collections.Counter(), "samples": [], "digests": {},
        "harness_errors": [], "skipped_deadline": 0,
    }
    ctx = multiprocessing.get_context("fork")
    with concurrent.futures.ProcessPoolExecutor(max_workers=nj, mp_context=ctx) as pool:
        futs = [pool.submit(_run_chunk, (engine_name, seed, tier, c, deadline)) for c in chunks]
        try:
            for fut in concurrent.futures.as_completed(futs, timeout=cap + 120):
                agg = fut.result()
                total["runs"] += agg["runs"]
                total["stats"].update(agg["stats"])
                total["distinct"].update(agg["distinct"])
                total["violations"].extend(agg["violations"])
                total["inconclusive"].update(agg["inconclusive"])
                total["harness_errors"].extend(agg["harness_errors"])
                total["skipped_deadline"] += agg["skipped_deadline"]
                total["digests"].update(agg["digests"])
                for s in agg["samples"]:
                    if len(total["samples"]) < 3:
                        total["samples"].append(s)
        except concurrent.futures.TimeoutError:
            total["harness_errors"].append("pool timeout: a worker did not return")
            for f in futs:
                f.cancel()
            for proc in list(getattr(pool, "_processes", {}).values()):
                try:
                    proc.kill()
                except Exception:
                    pass
        except concurrent.futures.process.BrokenProcessPool as error:
            total["harness_errors"].append(f"worker died: {error}")

    explore_s = time.time() - t0

    # ---- determinism self-test: re-execute sampled runs in a fresh interpreter under another
    # hash seed and compare trace digests
    det = {"checked": 0, "mismatches": []}
    n_det = int(cfg.get("determinism_samples", 6))
    sample_runs = sorted(total["digests"])[:n_det]
    if sample_runs and not total["harness_errors"]:
        env = dict(os.environ)
        env["PYTHONHASHSEED"] = str(1 + (seed % 1000))
        env["VERIF_SEED"] = str(seed)
        try:
            proc = subprocess.run(
                [PYTHON, os.path.join(VERIF, "bin", "check.py"), engine_name, "--tier", tier,
                 "--digests", ",".join(str(r) for r in sample_runs)],
                env=env, capture_output=True, text=True, timeout=1800)
            line = [l for l in proc.stdout.splitlines() if l.startswith("DIGESTS ")]
            if proc.returncode != 0 or not line:
                total["harness_errors"].append(
                    "determinism self-test could not run: " + (proc.stderr or proc.stdout)[-800:])
            else:
                other = json.loads(line[0][len("DIGESTS "):])
                for r in sample_runs:
                    det["checked"] += 1
                    if other.get(str(r)) != total["digests"][r]:
                        det["mismatches"].append(r)
        except subprocess.TimeoutExpired:
            total["harness_errors"].append("determinism self-test timed out")
        if det["mismatches"]:
            total["harness_errors"].append(
                f"simulation is not deterministic for runs {det['mismatches']} "
                "(fresh interpreter, other PYTHONHASHSEED)")

    # ---- violations: dedupe by class, minimise, write replay, confirm in fresh interpreter
    known = load_known()
    by_class: Dict[Tuple[str, str], List[dict]] = collections.OrderedDict()
    for item in sorted(total["violations"], key=lambda i: i["run"]):
        for v in item["violations"]:
            by_class.setdefault((v["property"], v["class"]), []).append({"item": item, "v": v})
    reported: List[dict] = []
    known_printed = set()
    exit_code = 0
    n_min = 0
    for (prop, cls), occurrences in by_class.items():
        v0 = occurrences[0]["v"]
        entry = match_known(v0, known)
        unknown_occ = [o for o in occurrences if match_known(o["v"], known) is None]
        if entry is not None and not unknown_occ:
            if entry["id"] not in known_printed:
                known_printed.add(entry["id"])
                print(f"KNOWN-FINDING: property={prop} {entry['what']} "
                      f"[{len(occurrences)} occurrence(s) this run]")
            continue
        occ = unknown_occ[0] if unknown_occ else occurrences[0]
        plan = occ["item"]["plan"]
        run = occ["item"]["run"]
        if n_min < int(cfg.get("max_minimise", 4)) and hasattr(engine, "reductions"):
            n_min += 1
            plan, n_exec = minimise(engine, plan, (prop, cls),
                                    budget_s=float(cfg.get("minimise_budget_s", 60)))
        else:
            n_exec = 0
        path = os.path.join(OUT, "replays", prop, f"{engine_name}-{seed}-{run}-"
                            f"{hashlib.sha256(cls.encode()).hexdigest()[:8]}.json")
        write_json(path, {"engine": engine_name, "property": prop, "expect": [prop, cls],
                          "detail": occ["v"].get("detail", ""), "seed": seed, "run": run,
                          "minimise_executions": n_exec, "plan": plan})
        # confirm in a fresh interpreter
        confirmed = False
        try:
            proc = subprocess.run(
                [PYTHON, os.path.join(VERIF, "bin", "check.py"), engine_name, "--replay", path],
                capture_output=True, text=True, timeout=1800, env=dict(os.environ))
            confirmed = proc.returncode == 1 and f"VIOLATION property={prop}" in proc.stdout
        except subprocess.TimeoutExpired:
            pass
        if not confirmed:
            total["harness_errors"].append(
                f"violation {prop}/{cls} of run {run} did not reproduce from its replay file {path}")
            continue
        print(f"  {prop} {cls}: {occ['v'].get('detail', '')[:700]}")
        print(f"VIOLATION property={prop} replay={path}")
        reported.append({"property": prop, "class": cls, "replay": path,
                         "occurrences": len(occurrences)})
        exit_code = 1

    wall = time.time() - t0
    desc = engine.describe()
    stats = dict(total["stats"])
    coverage = {
        # engines may count their own unit of evaluation (histories, case executions, faulted
        # runs); the number of simulated runs / work items is reported next to it
        "evaluations": int(stats.get("evaluations", total["runs"])),
        "distinct_nontrivial": len(total["distinct"]),
        "rule": desc["rule"],
        "samples": total["samples"] or ["(no sample recorded)"],
        "exhaustive": bool(desc.get("exhaustive", False)),
        "simulated_runs": int(total["runs"]),
        "runs_per_hour": int(total["runs"] / max(explore_s, 1e-6) * 3600),
        "seam_steps_simulated_time": int(stats.get("seam_steps", 0)),
        "fault_kinds_fired": {k[len("fault:"):]: v for k, v in sorted(stats.items())
                              if k.startswith("fault:")},
        "reach_probes": {k[len("probe:"):]: v for k, v in sorted(stats.items())
                         if k.startswith("probe:")},
        "counters": {k: v for k, v in sorted(stats.items())
                     if not k.startswith("fault:") and not k.startswith("probe:")},
        "inconclusive_runs": dict(total["inconclusive"]),
        "skipped_for_deadline": int(total["skipped_deadline"]),
        "determinism_selftest": det,
        "real_components": desc.get("real", []),
        "stubbed_components": desc.get("stub", []),
        "workers": nj,
        "violations_reported": reported,
        "known_findings_seen": sorted(known_printed),
    }
    for prop in engine.PROPERTY_IDS:
        ev = {
            "property_id": prop,
            "tier": tier,
            "seed": seed,
            "level": engine.LEVEL,
            "coverage": coverage,
            "assumptions": desc.get("assumptions", []),
            "wall_s": round(wall, 2),
            "violations": len([r for r in reported if r["property"] == prop]),
        }
        err = validate_evidence(ev)
        if err is not None:
            total["harness_errors"].append(f"evidence for {prop} does not validate: {err}")
        write_json(os.path.join(OUT, "evidence", f"{prop}.json"), ev)

    print(f"[{engine_name}] runs={total['runs']} distinct={len(total['distinct'])} "
          f"violating_classes={len(by_class)} reported={len(reported)} "
          f"known={len(known_printed)} inconclusive={dict(total['inconclusive'])} "
          f"det={det['checked']}/{len(det['mismatches'])} wall={wall:.1f}s", flush=True)
    if total["skipped_deadline"]:
        total["harness_errors"].append(
            f"{total['skipped_deadline']} runs skipped: wall cap {cap}s reached")
    if total["harness_errors"]:
        for e in total["harness_errors"][:10]:
            print("HARNESS-ERROR: " + e, file=sys.stderr)
        if exit_code == 0:
            return 2
    return exit_code
