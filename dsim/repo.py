"""Access to the repository under test: import path, corpus, run helpers, reference."""
from __future__ import annotations

import hashlib
import io
import os
import pathlib
import sys
import tempfile
import traceback
from typing import Any, Dict, List, Optional, Tuple

from dsim import kernel

REPO = os.path.abspath(os.environ.get("VERIF_REPO", "/repo"))

TARGETS = ["cpp", "csharp", "golang", "java", "jsonschema", "python", "typescript", "xsd"]
CHEAP_TARGETS = ["jsonschema", "xsd", "python"]

_activated = False


def activate() -> Any:
    """Import ``aas_core_codegen`` from the working tree at ``VERIF_REPO``."""
    global _activated
    if not _activated:
        sys.path.insert(0, REPO)
        sys.dont_write_bytecode = True
        _activated = True
    import aas_core_codegen  # noqa

    src = os.path.abspath(aas_core_codegen.__file__)
    if not src.startswith(REPO + os.sep):
        raise kernel.HarnessError(f"aas_core_codegen imported from {src}, not {REPO}")
    import aas_core_codegen.main  # noqa

    return aas_core_codegen


# --------------------------------------------------------------------------------------
# Corpus
# --------------------------------------------------------------------------------------


class Model:
    def __init__(self, ident: str, path: str, text: str) -> None:
        self.id = ident
        self.path = path
        self.text = text
        self.sha = hashlib.sha256(text.encode("utf-8", "surrogatepass")).hexdigest()


_corpus: Optional[List[Model]] = None


def corpus(include_big: bool = False) -> List[Model]:
    """The 9 common meta-models + every ``meta_model.py`` fixture (sorted, stable)."""
    global _corpus
    if _corpus is None:
        models: List[Model] = []
        root = pathlib.Path(REPO) / "dev" / "test_data"
        for p in sorted((root / "common_meta_models").glob("*.py")):
            models.append(Model("common/" + p.stem, str(p), p.read_text(encoding="utf-8")))
        seen = set(m.sha for m in models)
        for p in sorted(root.glob("**/meta_model.py")):
            try:
                text = p.read_text(encoding="utf-8")
            except UnicodeDecodeError:
                continue
            ident = str(p.parent.relative_to(root))
            m = Model(ident, str(p), text)
            if m.sha in seen:
                continue
            seen.add(m.sha)
            models.append(m)
        # meta-models of /verif itself: shapes the repository's fixtures do not contain (dense
        # cross references in descriptions, optional primitives of every kind)
        extra = pathlib.Path(os.path.dirname(os.path.dirname(os.path.abspath(__file__)))) / "corpus_extra"
        for p in sorted(extra.glob("*.py")):
            m = Model("extra/" + p.stem, str(p), p.read_text(encoding="utf-8"))
            if m.sha not in seen:
                seen.add(m.sha)
                models.append(m)
        _corpus = models
    if include_big:
        return list(_corpus)
    return [m for m in _corpus if len(m.text) < 60000]


def small_common() -> List[Model]:
    return [m for m in corpus() if m.id.startswith("common/")]


def big_model() -> Model:
    for m in corpus(include_big=True):
        if m.id == "common/aas_core_meta.v3":
            return m
    raise kernel.HarnessError("aas_core_meta.v3 not found")


_MIN_SNIPPETS: Dict[str, Dict[str, str]] = {}


def min_snippets(target: str) -> Dict[str, str]:
    """The snippets a target needs regardless of the model (from the `enum` fixture)."""
    if target not in _MIN_SNIPPETS:
        root = pathlib.Path(REPO) / "dev" / "test_data" / "main" / target / "expected"
        d = root / "enum" / "input" / "snippets"
        out: Dict[str, str] = {}
        if d.is_dir():
            for p in sorted(d.glob("**/*")):
                if p.is_file() and not p.name.startswith("."):
                    out[p.relative_to(d).as_posix()] = p.read_text(encoding="utf-8")
        elif target == "java":
            out["package.txt"] = "dummy.verif"
        if target == "python":
            out["qualified_module_name.txt"] = "vsdk"
        _MIN_SNIPPETS[target] = out
    return dict(_MIN_SNIPPETS[target])


def big_snippets_dir(target: str) -> str:
    return str(pathlib.Path(REPO) / "dev" / "test_data" / "main" / target / "expected"
               / "aas_core_meta.v3" / "input" / "snippets")


def write_tree(root: str, files: Dict[str, Any]) -> None:
    for rel, content in files.items():
        p = os.path.join(root, rel)
        os.makedirs(os.path.dirname(p), exist_ok=True)
        if isinstance(content, bytes):
            with kernel.real_open(p, "wb") as f:
                f.write(content)
        else:
            with kernel.real_open(p, "w", encoding="utf-8", newline="") as f:
                f.write(content)


def hash_tree(root: str) -> Dict[str, str]:
    out: Dict[str, str] = {}
    for dirpath, dirnames, filenames in os.walk(root):
        dirnames.sort()
        for fn in sorted(filenames):
            p = os.path.join(dirpath, fn)
            rel = os.path.relpath(p, root)
            try:
                with kernel.real_open(p, "rb") as f:
                    out[rel] = hashlib.sha256(f.read()).hexdigest()[:24]
            except OSError as error:
                out[rel] = f"<unreadable {error.errno}>"
    return out


# --------------------------------------------------------------------------------------
# Running the generator
# --------------------------------------------------------------------------------------


class RunResult:
    __slots__ = ("rc", "out", "err", "exc", "files")

    def __init__(self, rc: Any, out: str, err: str, exc: Optional[Tuple[str, str, str]],
                 files: Optional[Dict[str, str]] = None) -> None:
        self.rc = rc
        self.out = out
        self.err = err
        self.exc = exc
        self.files = files

    def key(self) -> tuple:
        return (self.rc, self.out, self.err, self.exc[0] if self.exc else None,
                tuple(sorted((self.files or {}).items())))

    def brief(self) -> dict:
        return {
            "rc": self.rc, "out": self.out[-200:], "err": self.err[:400],
            "exc": list(self.exc) if self.exc else None,
            "n_files": len(self.files or {}),
            "files_digest": hashlib.sha256(
                repr(sorted((self.files or {}).items())).encode()).hexdigest()[:16],
        }


def normalise(text: str, mapping: List[Tuple[str, str]]) -> str:
    for real, label in mapping:
        # a short relative name such as "s" is no recognisable path: leave it alone
        if real and os.sep in real and len(real) >= 4:
            text = text.replace(real, label)
    return text


def _exc_info(error: BaseException) -> Tuple[str, str, str]:
    tb = traceback.extract_tb(error.__traceback__)
    where = ""
    for frame in reversed(tb):
        where = f"{os.path.basename(frame.filename)}:{frame.name}"
        if "aas_core_codegen" in frame.filename:
            break
    return (type(error).__name__, str(error)[:500], where)


def run_generator(model_path: str, target: str, snippets_dir: str, out_dir: str,
                  cache: bool, via: str = "execute") -> RunResult:
    """Run the real generator once; never raises for errors of the code under test.

    ``SimCrash`` (a BaseException) passes through on purpose.
    """
    activate()
    import aas_core_codegen.main as cg_main

    stdout = io.StringIO()
    stderr = io.StringIO()
    mapping = [(out_dir, "<OUT>"), (model_path, "<MODEL>"), (snippets_dir, "<SNIPPETS>")]
    rc: Any = None
    exc = None
    if via == "execute":
        try:
            params = cg_main.Parameters(
                model_path=pathlib.Path(model_path),
                target=cg_main.Target(target),
                snippets_dir=pathlib.Path(snippets_dir),
                output_dir=pathlib.Path(out_dir),
                cache_model=cache,
            )
            rc = cg_main.execute(params, stdout=stdout, stderr=stderr)
        except Exception as error:  # uncaught exception of the code under test
            exc = _exc_info(error)
    else:
        argv = ["aas-core-codegen", "--model_path", model_path, "--snippets_dir",
                snippets_dir, "--output_dir", out_dir, "--target", target]
        if cache:
            argv.append("--cache_model")
        old = (sys.argv, sys.stdout, sys.stderr)
        sys.argv, sys.stdout, sys.stderr = argv, stdout, stderr
        try:
            rc = cg_main.main(prog="aas-core-codegen")
        except SystemExit as error:
            rc = error.code if isinstance(error.code, int) else 2
        except Exception as error:
            exc = _exc_info(error)
        finally:
            sys.argv, sys.stdout, sys.stderr = old
    return RunResult(rc, normalise(stdout.getvalue(), mapping),
                     normalise(stderr.getvalue(), mapping), exc)


# --------------------------------------------------------------------------------------
# Reference model: one fault-free run with a pristine, empty temp directory
# --------------------------------------------------------------------------------------

_ref_cache: Dict[Tuple[str, str, str], RunResult] = {}


def snippets_key(snippets: Dict[str, Any]) -> str:
    h = hashlib.sha256()
    for k in sorted(snippets):
        v = snippets[k]
        h.update(k.encode("utf-8", "surrogateescape") + b"\0")
        h.update(v if isinstance(v, bytes) else v.encode("utf-8", "surrogatepass"))
        h.update(b"\1")
    return h.hexdigest()[:16]


def reference(text: str, target: str, snippets: Optional[Dict[str, Any]] = None,
              snippets_dir: Optional[str] = None) -> RunResult:
    """Result of an uncached run of ``text`` for ``target`` (memoised per process)."""
    if snippets is None and snippets_dir is None:
        snippets = min_snippets(target)
    skey = snippets_key(snippets) if snippets is not None else "dir:" + str(snippets_dir)
    key = (hashlib.sha256(text.encode("utf-8", "surrogatepass")).hexdigest(), target, skey)
    hit = _ref_cache.get(key)
    if hit is not None:
        return hit
    if kernel._ACTIVE is not None:
        raise kernel.HarnessError("reference() called while a simulation is active")
    sb = kernel.Sandbox(tag="-ref")
    old_tmp = tempfile.tempdir
    try:
        tempfile.tempdir = sb.path("tmp")
        model_path = sb.path("models", "meta_model.py")
        with kernel.real_open(model_path, "w", encoding="utf-8", newline="") as f:
            f.write(text)
        if snippets is not None:
            sdir = sb.path("snippets")
            write_tree(sdir, snippets)
        else:
            sdir = str(snippets_dir)
        out_dir = sb.path("out")
        res = run_generator(model_path, target, sdir, out_dir, cache=False)
        res.files = hash_tree(out_dir)
    finally:
        tempfile.tempdir = old_tmp
        sb.cleanup()
    _ref_cache[key] = res
    return res


def c03_monitor(res: RunResult) -> Optional[str]:
    """The exit-status / stderr / stdout contract of C03 that is decidable on any run.

    Returns a description of the breach or None.  Only for runs that returned normally.
    """
    if res.exc is not None:
        return None
    if not isinstance(res.rc, int):
        return f"return code is not an int: {res.rc!r}"
    if res.rc == 0:
        if res.err != "":
            return f"rc 0 but stderr is not empty: {res.err[:200]!r}"
        if not res.out.endswith("Code generated to: <OUT>\n"):
            return f"rc 0 but stdout does not end with the 'Code generated to' line: {res.out[-200:]!r}"
    else:
        if res.err == "":
            return f"rc {res.rc} but stderr is empty"
        lines = res.err.split("\n")
        for i, line in enumerate(lines):
            if line.startswith("* "):
                if i == 0:
                    return "stderr starts with a bullet without a headline"
                break
    return None
