"""C26 -- yield-flow linearization preserves behaviour (DESIGN.md section 2, C26).

System under test: ``yielding.linear.linearize_to_subroutines`` (real code).  Its output is
run as a *resumable* state machine -- ``resume(state) -> next state | done`` returning at
every Yield, exactly the protocol ``cpp/yielding.py`` emits -- by the simulator, which
interleaves several machines between resumptions and answers every condition evaluation from
a seeded outcome tape.  Reference model: a structured interpreter of the ``flow.py`` nodes fed
with the same tape.  Oracle: the two recorded histories are equal event by event.
"""
from __future__ import annotations

import hashlib
import os
import random
import shutil
import subprocess
from typing import Any, Dict, Iterator, List, Optional, Tuple

from dsim import kernel, repo

PROPERTY_IDS = ["C26"]
LEVEL = "exploration"

tiers = {
    "quick": {"runs": 20000, "chunk": 400, "wall_cap_s": 2400, "determinism_samples": 8,
              "max_minimise": 4, "minimise_budget_s": 30, "cpp_every": 0},
    "thorough": {"runs": 600000, "chunk": 2000, "wall_cap_s": 7200, "determinism_samples": 40,
                 "max_minimise": 6, "minimise_budget_s": 90, "cpp_every": 300},
}

EVENT_CAP = 400
DONE = -1


def prepare(tier: str) -> None:
    repo.activate()


def describe() -> dict:
    return {
        "rule": (
            "one simulated run = one group of 1-4 seeded flows (depth <= 4, <= 40 nodes: commands, "
            "IfTrue/IfFalse with or_else None / [] / non-empty, For with and without init, While, "
            "Yield, empty loop bodies, trailing ifs/loops, consecutive yields) linearized by the "
            "real code and run as interleaved resumable machines under 3 seeded condition-outcome "
            "tapes each (random p, all-true-until-fuel, alternating, all-false), <= 400 events per "
            "history, against the structured reference interpreter; one evaluation = one (flow, tape) history compared. distinct = distinct flow "
            "shapes (dump of the linearization with ids erased) having at least one yield or loop."
        ),
        "real": ["yielding.linear.linearize_to_subroutines, linear.dump, yielding.flow",
                 "cpp.yielding.generate_execute_body compiled with g++ (thorough tier sample)"],
        "stub": ["the C++ switch/fall-through/continue/return loop is replaced by a ~60-line "
                 "interpreter of the subroutines (validated against g++ in the thorough tier)",
                 "the environment: condition outcomes come from the seeded tape"],
        "assumptions": ["conditions and commands do not themselves affect control flow (the documented contract of flow.py)"],
    }


# --------------------------------------------------------------------------------------
# flow specs
# --------------------------------------------------------------------------------------


def _gen_nodes(rng: random.Random, depth: int, budget: List[int], weights: Dict[str, float],
               counter: List[int], allow_empty: bool) -> List[Any]:
    n = rng.choice([0, 1, 1, 2, 2, 3, 4]) if allow_empty else rng.choice([1, 1, 2, 2, 3, 4])
    nodes: List[Any] = []
    kinds = list(weights)
    for _ in range(n):
        if budget[0] <= 0:
            break
        budget[0] -= 1
        kind = rng.choices(kinds, [weights[k] for k in kinds])[0]
        if depth <= 0 and kind not in ("cmd", "yield"):
            kind = rng.choice(["cmd", "yield"])
        counter[0] += 1
        i = counter[0]
        if kind == "cmd":
            nodes.append(["cmd", i])
        elif kind == "yield":
            nodes.append(["yield"])
        elif kind in ("ift", "iff"):
            body = _gen_nodes(rng, depth - 1, budget, weights, counter, False)
            if not body:
                counter[0] += 1
                body = [["cmd", counter[0]]]
            r = rng.random()
            if r < 0.4:
                or_else = None
            elif r < 0.55:
                or_else = []
            else:
                or_else = _gen_nodes(rng, depth - 1, budget, weights, counter, True)
            nodes.append([kind, i, body, or_else])
        elif kind == "for":
            body = _gen_nodes(rng, depth - 1, budget, weights, counter, True)
            nodes.append(["for", i, rng.random() < 0.6, body])
        elif kind == "while":
            body = _gen_nodes(rng, depth - 1, budget, weights, counter, True)
            nodes.append(["while", i, body])
    return nodes


def gen_flow(rng: random.Random) -> List[Any]:
    weights = {
        "cmd": rng.choice([1.0, 2.0, 4.0]),
        "yield": rng.choice([0.5, 1.0, 3.0]),
        "ift": rng.choice([0.0, 1.0, 2.0]),
        "iff": rng.choice([0.0, 1.0, 2.0]),
        "for": rng.choice([0.0, 1.0, 2.0]),
        "while": rng.choice([0.0, 0.5, 1.5]),
    }
    depth = rng.choice([1, 2, 3, 4])
    budget = [rng.choice([3, 8, 15, 40])]
    return _gen_nodes(rng, depth, budget, weights, [0], rng.random() < 0.05)


def gen_plan(seed: int, run: int, tier: str) -> dict:
    rng = random.Random(f"{seed}:C26:{run}")
    n = rng.choice([1, 2, 3, 4])
    flows = [gen_flow(rng) for _ in range(n)]
    tapes = []
    for _ in range(3):
        pol = rng.choice(["random", "random", "true_until", "alternate", "all_false"])
        tapes.append({"policy": pol, "seed": rng.randrange(1 << 30),
                      "p": rng.choice([0.3, 0.5, 0.7, 0.9]), "fuel": rng.choice([1, 3, 7, 20])})
    cpp_every = int(tiers[tier].get("cpp_every", 0))
    return {"engine": "yieldflow", "seed": seed, "run": run, "flows": flows, "tapes": tapes,
            "interleave_seed": rng.randrange(1 << 30),
            "cpp": bool(cpp_every and run % cpp_every == 0)}


def build(spec: List[Any]) -> List[Any]:
    from aas_core_codegen.yielding import flow as F
    from aas_core_codegen.common import Stripped

    out: List[Any] = []
    for node in spec:
        k = node[0]
        if k == "cmd":
            out.append(F.Command(Stripped(f"k{node[1]};")))
        elif k == "yield":
            out.append(F.Yield())
        elif k == "ift":
            out.append(F.IfTrue(f"c{node[1]}", build(node[2]),
                                None if node[3] is None else build(node[3])))
        elif k == "iff":
            out.append(F.IfFalse(f"c{node[1]}", build(node[2]),
                                 None if node[3] is None else build(node[3])))
        elif k == "for":
            out.append(F.For(f"c{node[1]}", f"iter{node[1]};", build(node[3]),
                             init=(f"init{node[1]};" if node[2] else None)))
        elif k == "while":
            out.append(F.While(f"c{node[1]}", build(node[2])))
        else:
            raise ValueError(k)
    return out


# --------------------------------------------------------------------------------------
# environment: the outcome tape
# --------------------------------------------------------------------------------------


class Tape:
    def __init__(self, spec: dict) -> None:
        self.spec = spec
        self.rng = random.Random(spec["seed"])
        self.n = 0
        self.outcomes: List[bool] = []

    def at(self, i: int) -> bool:
        while len(self.outcomes) <= i:
            k = len(self.outcomes)
            pol = self.spec["policy"]
            if pol == "random":
                v = self.rng.random() < self.spec["p"]
            elif pol == "true_until":
                v = k < self.spec["fuel"]
            elif pol == "alternate":
                v = k % 2 == 0
            else:
                v = False
            self.outcomes.append(v)
        return self.outcomes[i]


class Cut(Exception):
    pass


class History:
    def __init__(self, tape: Tape) -> None:
        self.tape = tape
        self.events: List[Tuple[str, Any]] = []
        self.n_cond = 0

    def emit(self, kind: str, what: Any = None) -> None:
        if len(self.events) >= EVENT_CAP:
            raise Cut()
        self.events.append((kind, what))

    def cond(self, text: str) -> bool:
        v = self.tape.at(self.n_cond)
        self.n_cond += 1
        self.emit("cond", (text, v))
        return v


# --------------------------------------------------------------------------------------
# reference model: structured interpreter
# --------------------------------------------------------------------------------------


def run_structured(nodes: List[Any], h: History) -> None:
    from aas_core_codegen.yielding import flow as F

    for node in nodes:
        if isinstance(node, F.Command):
            h.emit("cmd", str(node.code))
        elif isinstance(node, F.Yield):
            h.emit("yield")
        elif isinstance(node, F.IfTrue):
            if h.cond(str(node.condition)):
                run_structured(list(node.body), h)
            elif node.or_else is not None:
                run_structured(list(node.or_else), h)
        elif isinstance(node, F.IfFalse):
            if not h.cond(str(node.condition)):
                run_structured(list(node.body), h)
            elif node.or_else is not None:
                run_structured(list(node.or_else), h)
        elif isinstance(node, F.For):
            if node.init is not None:
                h.emit("cmd", str(node.init))
            while h.cond(str(node.condition)):
                run_structured(list(node.body), h)
                h.emit("cmd", str(node.iteration))
        elif isinstance(node, F.While):
            while h.cond(str(node.condition)):
                run_structured(list(node.body), h)
        else:
            raise AssertionError(type(node))


# --------------------------------------------------------------------------------------
# the resumable machine (stub of the emitted C++ switch loop)
# --------------------------------------------------------------------------------------


class Machine:
    """Holds nothing but (subroutines, state): everything else lives in the history."""

    def __init__(self, subroutines: List[Any]) -> None:
        self.subs = subroutines
        self.index = {sub[0].label: i for i, sub in enumerate(subroutines)}
        self.state = subroutines[0][0].label if subroutines else DONE

    def resume(self, h: History) -> None:
        """Run until the next yield (state := where to resume) or the end (state := DONE)."""
        from aas_core_codegen.yielding import linear as L

        steps = 0
        while True:
            if self.state not in self.index:
                raise InvalidState(self.state)
            i = self.index[self.state]
            jumped = False
            while i < len(self.subs) and not jumped:
                for st in self.subs[i]:
                    steps += 1
                    if steps > 50 * EVENT_CAP:
                        raise Cut()
                    if isinstance(st, L.Command):
                        h.emit("cmd", str(st.code))
                    elif isinstance(st, L.If):
                        v = h.cond(str(st.condition))
                        if v and st.on_true is not None:
                            self.state = st.on_true
                            jumped = True
                            break
                        if (not v) and st.on_false is not None:
                            self.state = st.on_false
                            jumped = True
                            break
                    elif isinstance(st, L.Jump):
                        self.state = st.target
                        jumped = True
                        break
                    elif isinstance(st, L.Yield):
                        h.emit("yield")
                        self.state = (self.subs[i + 1][0].label if i + 1 < len(self.subs) else DONE)
                        return
                    elif isinstance(st, L.Noop):
                        pass
                    else:
                        raise AssertionError(type(st))
                else:
                    i += 1  # fall through into the next consecutive subroutine
            if not jumped:
                self.state = DONE
                return


class InvalidState(Exception):
    pass


def structure_problems(subs: List[Any]) -> List[Tuple[str, str]]:
    from aas_core_codegen.yielding import linear as L

    problems = []
    labels = [sub[0].label for sub in subs]
    if labels != list(range(len(subs))):
        problems.append(("labels-not-consecutive", f"subroutine labels are {labels[:12]}"))
    label_set = set(labels)
    for sub in subs:
        for j, st in enumerate(sub):
            if j > 0 and st.label is not None:
                problems.append(("label-inside-subroutine", f"statement {j} of subroutine {sub[0].label} is labelled {st.label}"))
            targets = []
            if isinstance(st, L.If):
                targets = [t for t in (st.on_true, st.on_false) if t is not None]
                if not targets:
                    problems.append(("if-without-target", f"if {st.condition} has no target"))
            elif isinstance(st, L.Jump):
                targets = [st.target]
            for t in targets:
                if t not in label_set:
                    problems.append(("jump-target-missing", f"target {t} is no subroutine label (labels 0..{len(subs) - 1})"))
            if isinstance(st, L.Yield) and j != len(sub) - 1:
                problems.append(("no-boundary-after-yield", f"yield in the middle of subroutine {sub[0].label}"))
    return problems


def _dump(subs: List[Any]) -> str:
    from aas_core_codegen.yielding import linear as L

    return "\n--\n".join(L.dump(list(sub)) for sub in subs)


# --------------------------------------------------------------------------------------


def execute(plan: dict) -> dict:
    repo.activate()
    from aas_core_codegen.yielding import linear as L

    stats: Dict[str, int] = {}
    violations: List[dict] = []
    out: Dict[str, Any] = {"plan": plan, "violations": violations, "stats": stats,
                           "distinct": [], "inconclusive": None, "digest": None, "sample": None}
    h_all = hashlib.sha256()
    machines_subs = []
    flows = []
    for fi, spec in enumerate(plan["flows"]):
        flow = build(spec)
        flows.append(flow)
        try:
            subs = L.linearize_to_subroutines(flow)
            subs2 = L.linearize_to_subroutines(build(spec))
            subs3 = L.linearize_to_subroutines(flow)
        except Exception as error:  # noqa
            violations.append({"property": "C26", "class": f"linearize-raises:{type(error).__name__}",
                               "detail": f"linearize_to_subroutines raised {type(error).__name__}: "
                                         f"{str(error)[:300]} for flow {spec!r}"})
            machines_subs.append(None)
            continue
        d1 = _dump(subs)
        if d1 != _dump(subs2) or d1 != _dump(subs3):
            violations.append({"property": "C26", "class": "linearization-not-repeatable",
                               "detail": f"linearizing the same flow twice gives different dumps for {spec!r}"})
        for cls, what in structure_problems(subs)[:3]:
            violations.append({"property": "C26", "class": cls, "detail": f"{what}; flow {spec!r}"})
        machines_subs.append(subs)
        h_all.update(d1.encode())
        shape = hashlib.sha256("".join(c for c in d1 if not c.isdigit()).encode()).hexdigest()[:16]
        if any(k in d1 for k in ("yield", "jump")):
            out["distinct"].append(shape)
    stats["flows"] = len(flows)

    # ---- run: per tape, all machines interleaved between resumptions
    for ti, tape_spec in enumerate(plan["tapes"]):
        if violations:
            break
        ilv = random.Random(f"{plan['interleave_seed']}:{ti}")
        live = []
        for fi, subs in enumerate(machines_subs):
            if subs is None:
                continue
            tape = Tape(tape_spec)
            ref = History(tape)
            try:
                run_structured(flows[fi], ref)
            except Cut:
                pass
            live.append({"fi": fi, "m": Machine(subs), "h": History(tape), "ref": ref,
                         "done": False, "error": None})
        pending = [m for m in live if m["m"].state != DONE]
        for m in live:
            if m["m"].state == DONE:
                m["done"] = True
        while pending:
            m = pending[ilv.randrange(len(pending))]
            stats["seam_steps"] = stats.get("seam_steps", 0) + 1
            try:
                m["m"].resume(m["h"])
            except Cut:
                m["done"] = True
                m["cut"] = True
            except InvalidState as error:
                m["error"] = f"resumed/jumped to state {error.args[0]} which is no subroutine label"
                m["done"] = True
            if m["m"].state == DONE:
                m["done"] = True
            if m["done"]:
                pending.remove(m)
        for m in live:
            got, want = m["h"].events, m["ref"].events
            stats["events"] = stats.get("events", 0) + len(got)
            stats["histories"] = stats.get("histories", 0) + 1
            stats["evaluations"] = stats.get("evaluations", 0) + 1
            h_all.update(repr(got).encode())
            if m["error"]:
                violations.append({"property": "C26", "class": "invalid-state",
                                   "detail": f"{m['error']}; flow {plan['flows'][m['fi']]!r}"})
                continue
            n = min(len(got), len(want))
            cut = m.get("cut") or len(want) >= EVENT_CAP
            if got[:n] != want[:n] or (not cut and len(got) != len(want)):
                k = next((i for i in range(n) if got[i] != want[i]), n)
                violations.append({
                    "property": "C26", "class": "history-differs",
                    "detail": (f"event {k}: machine {got[k] if k < len(got) else 'END'} vs structured "
                               f"{want[k] if k < len(want) else 'END'} under tape {tape_spec}; "
                               f"flow {plan['flows'][m['fi']]!r}")})
            if any(e[0] == "yield" for e in want):
                stats["probe:histories_with_yield"] = stats.get("probe:histories_with_yield", 0) + 1
            if m.get("cut"):
                stats["probe:histories_cut_at_cap"] = stats.get("probe:histories_cut_at_cap", 0) + 1

    if plan.get("cpp") and not violations:
        _cpp_check(plan, flows, violations, stats)
    out["digest"] = h_all.hexdigest()
    if plan["run"] % 5000 == 0 or violations:
        out["sample"] = {"run": plan["run"], "flows": plan["flows"][:2], "tapes": plan["tapes"],
                         "linearized": [_dump(s) if s is not None else None for s in machines_subs][:1]}
    return out


# --------------------------------------------------------------------------------------
# validation of the stub against the real emitted C++ (thorough tier)
# --------------------------------------------------------------------------------------

_CPP_MAIN = r"""
#include <cstdio>
#include <stdexcept>
#include <string>
#include <vector>
namespace common { template<class A, class B> std::string Concat(A a, B b) { return std::string(a) + std::string(b); } }
static std::vector<int> tape; static size_t n_cond = 0; static int n_events = 0;
static bool cond(const char* t) { bool v = n_cond < tape.size() ? tape[n_cond] != 0 : false; n_cond++; std::printf("cond %s %d\n", t, v ? 1 : 0); n_events++; return v; }
static void cmd(const char* t) { std::printf("cmd %s\n", t); n_events++; }
struct M { int state_ = 0; bool yielded_ = false; void Execute(); };
void M::Execute() {
%BODY%
}
int main(int argc, char** argv) {
  for (const char* p = argv[1]; *p; ++p) tape.push_back(*p == '1');
  int last = atoi(argv[2]);
  M m; int guard = 0;
  try {
    while (m.state_ <= last && n_events < %CAP% && guard++ < 100000) { m.yielded_ = false; m.Execute(); if (m.yielded_) { std::printf("yield\n"); n_events++; } }
  } catch (const std::logic_error& e) { std::printf("logic_error\n"); }
  return 0;
}
"""


def _cpp_check(plan: dict, flows: List[Any], violations: List[dict], stats: Dict[str, int]) -> None:
    """Compile the body emitted by cpp.yielding for flows ending in a command; compare histories."""
    from aas_core_codegen.cpp import yielding as cpp_yielding
    from aas_core_codegen.common import Identifier
    from aas_core_codegen.yielding import flow as F, linear as L
    import re

    if shutil.which("g++") is None:
        stats["cpp_skipped_no_compiler"] = stats.get("cpp_skipped_no_compiler", 0) + 1
        return
    for fi, flow in enumerate(flows):
        if not flow or not isinstance(flow[-1], F.Command):
            continue
        body = str(cpp_yielding.generate_execute_body(flow, Identifier("state_")))
        subs = L.linearize_to_subroutines(flow)
        # commands/conditions become calls; a yield is visible as "return" with state set
        body = re.sub(r"\bk(\d+);", r'cmd("k\1;");', body)
        body = re.sub(r"\binit(\d+);", r'cmd("init\1;");', body)
        body = re.sub(r"\biter(\d+);", r'cmd("iter\1;");', body)
        body = re.sub(r"\bc(\d+)\b", r'cond("c\1")', body)
        # the end-of-routine block is no yield; every other "state_ = N; return;" is one
        body = re.sub(r"(// We invalidate the state since we reached the end of the routine\.\n"
                      r"\s*state_ = \d+;\n\s*)return;", r"\1goto verif_end;", body)
        body = re.sub(r"(state_ = \d+;[^\n]*\n\s*)return;", r"\1yielded_ = true; return;", body)
        body = body.replace("goto verif_end;", "return;")
        src = _CPP_MAIN.replace("%BODY%", body).replace("%CAP%", str(EVENT_CAP))
        wd = os.path.join(kernel.sandbox_base(), f"aascg-cpp-{os.getpid()}")
        os.makedirs(wd, exist_ok=True)
        try:
            with open(os.path.join(wd, "m.cpp"), "w") as f:
                f.write(src)
            r = subprocess.run(["g++", "-std=c++11", "-O0", "-w", "-o", os.path.join(wd, "m"),
                                os.path.join(wd, "m.cpp")], capture_output=True, text=True, timeout=120)
            if r.returncode != 0:
                stats["cpp_compile_failed"] = stats.get("cpp_compile_failed", 0) + 1
                continue
            for tape_spec in plan["tapes"]:
                tape = Tape(tape_spec)
                ref = History(tape)
                try:
                    run_structured(flow, ref)
                except Cut:
                    continue
                bits = "".join("1" if tape.at(i) else "0" for i in range(max(1, ref.n_cond + 5)))
                last = len(subs) - 1
                r = subprocess.run([os.path.join(wd, "m"), bits, str(last)], capture_output=True,
                                   text=True, timeout=30)
                got = []
                for line in r.stdout.splitlines():
                    parts = line.split(" ")
                    if parts[0] == "cmd":
                        got.append(("cmd", parts[1]))
                    elif parts[0] == "cond":
                        got.append(("cond", (parts[1], parts[2] == "1")))
                    elif parts[0] == "yield":
                        got.append(("yield", None))
                    else:
                        got.append((parts[0], None))
                stats["cpp_histories"] = stats.get("cpp_histories", 0) + 1
                if got != ref.events:
                    k = next((i for i in range(min(len(got), len(ref.events))) if got[i] != ref.events[i]),
                             min(len(got), len(ref.events)))
                    violations.append({
                        "property": "C26", "class": "cpp-history-differs",
                        "detail": f"compiled C++ body differs from the structured flow at event {k}: "
                                  f"{got[k] if k < len(got) else 'END'} vs "
                                  f"{ref.events[k] if k < len(ref.events) else 'END'}; flow {plan['flows'][fi]!r}"})
                    return
        finally:
            shutil.rmtree(wd, ignore_errors=True)


# --------------------------------------------------------------------------------------


def _shrink_nodes(nodes: List[Any]) -> Iterator[List[Any]]:
    for i in range(len(nodes)):
        yield nodes[:i] + nodes[i + 1:]
    for i, node in enumerate(nodes):
        k = node[0]
        if k in ("ift", "iff"):
            yield nodes[:i] + node[2] + nodes[i + 1:]
            if node[3]:
                yield nodes[:i] + node[3] + nodes[i + 1:]
                yield nodes[:i] + [[k, node[1], node[2], None]] + nodes[i + 1:]
            for b in _shrink_nodes(node[2]):
                if b:
                    yield nodes[:i] + [[k, node[1], b, node[3]]] + nodes[i + 1:]
            if node[3]:
                for b in _shrink_nodes(node[3]):
                    yield nodes[:i] + [[k, node[1], node[2], b]] + nodes[i + 1:]
        elif k == "for":
            yield nodes[:i] + node[3] + nodes[i + 1:]
            if node[2]:
                yield nodes[:i] + [["for", node[1], False, node[3]]] + nodes[i + 1:]
            for b in _shrink_nodes(node[3]):
                yield nodes[:i] + [["for", node[1], node[2], b]] + nodes[i + 1:]
        elif k == "while":
            yield nodes[:i] + node[2] + nodes[i + 1:]
            for b in _shrink_nodes(node[2]):
                yield nodes[:i] + [["while", node[1], b]] + nodes[i + 1:]


def reductions(plan: dict) -> Iterator[dict]:
    import copy

    if len(plan["flows"]) > 1:
        for i in range(len(plan["flows"])):
            p = copy.deepcopy(plan)
            p["flows"] = [plan["flows"][i]]
            yield p
    if len(plan["tapes"]) > 1:
        for i in range(len(plan["tapes"])):
            p = copy.deepcopy(plan)
            p["tapes"] = [plan["tapes"][i]]
            yield p
    for fi, flow in enumerate(plan["flows"]):
        for smaller in _shrink_nodes(flow):
            p = copy.deepcopy(plan)
            p["flows"][fi] = smaller
            yield p
    for ti, t in enumerate(plan["tapes"]):
        for pol in ("all_false", "alternate"):
            if t["policy"] not in (pol, "all_false"):
                p = copy.deepcopy(plan)
                p["tapes"][ti]["policy"] = pol
                yield p
