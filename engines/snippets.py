"""C25 -- the snippets directory is loaded exactly (DESIGN.md section 2, C25).

Seeded directory trees on the sandboxed file system, listed in seeded orders through the
scandir seam; reference model = dict computed from the tree spec.
"""
from __future__ import annotations

import hashlib
import os
import pathlib
import random
from typing import Any, Dict, Iterator, List, Optional, Tuple

from dsim import kernel, repo, workload

PROPERTY_IDS = ["C25"]
LEVEL = "exploration"

tiers = {
    "quick": {"runs": 12000, "chunk": 200, "wall_cap_s": 2400, "determinism_samples": 8,
              "max_minimise": 4, "minimise_budget_s": 30},
    "thorough": {"runs": 300000, "chunk": 500, "wall_cap_s": 7200, "determinism_samples": 40,
                 "max_minimise": 6, "minimise_budget_s": 90},
}

VALID_COMPONENTS = ["Types", "Verification", "a", "_x", "Foo_bar", "x.txt", "a.b.c", "Z9",
                    "snippet.cs", "is_xs_date.py", "v_1.2", "namespace.txt", "README.md", "__init__",
                    "A" * 64, "deep", "k.json"]
INVALID_COMPONENTS = ["has space.txt", "9lead.txt", "ünï.txt", "tail\n", "mid\nline.txt",
                      "-dash.txt", "a+b.txt", "*star.txt", "\udcff\udcfe.txt", "a:b", "semi;colon",
                      "x.txt ", "(paren)", "café", "中文.txt", "tab\there", "q?.txt",
                      "trailing.\n", "~tilde"]
HIDDEN_COMPONENTS = [".gitignore", ".hidden", ".x.txt", ".DS_Store", ".keep", "..data"]
# ASCII whitespace, plus characters with the Unicode White_Space property (NEL, NBSP, EN/EM
# spaces, line/paragraph separator, ideographic space).  U+001C..U+001F are not generated:
# they are "whitespace" only for Python's str.isspace, not for Unicode.
WS = [" ", "\t", "\n", "\x0b", "\x0c", " ", "\t", "\n",
      "\u0085", "\u00a0", "\u2002", "\u2003", "\u2009", "\u2028", "\u2029", "\u202f", "\u3000"]
BODIES = ["", "x", "namespace Foo", "line1\nline2", "a  b", "  inner\ttab  ", "äöü 中",
          "{\n  \"k\": 1\n}", "\U0001f600", "z" * 300]
BAD_UTF8 = [b"\xff", b"abc\xfe", b"\xc3\x28", b"ok \xe2\x82", b"\xed\xa0\x80", b"\x80start"]


def prepare(tier: str) -> None:
    repo.activate()


def describe() -> dict:
    return {
        "rule": (
            "one evaluation = one seeded directory tree (<= 12 entries, depth <= 3: valid keys, "
            "invalid keys incl. newline / non-UTF-8 / unicode names, hidden files and hidden "
            "empty directories at any depth, empty directories, contents with leading/trailing "
            "whitespace, empty files, invalid UTF-8) loaded 2-4 times with seeded listing "
            "orders by read_from_directory and once through main.execute; the directory itself sits at "
            "a plain path, below hidden ancestors, behind a symlink, under blanks/unicode, or is "
            "named relatively / with '..' components. distinct = distinct "
            "tree shapes (multiset of entry kinds x depth x validity class) that contain at "
            "least one non-hidden file."
        ),
        "real": ["specific_implementations.read_from_directory", "main.execute + a real target",
                 "pathlib.glob", "tmpfs file system"],
        "stub": ["os.scandir / os.listdir order (seeded permutation of real DirEntry objects)"],
        "assumptions": [
            "'valid snippet key' is the repository's own IMPLEMENTATION_KEY_RE",
            "whitespace = ASCII space, tab, newline, VT, FF and the characters with the Unicode White_Space property (NEL, NBSP, EN/EM/thin space, LS, PS, NNBSP, ideographic space); U+001C..U+001F, BOM and CR are not generated: the statement is silent about them",
            "files below hidden directories, symlinks and special files are not generated",
        ],
    }


# --------------------------------------------------------------------------------------


def _gen_tree(rng: random.Random) -> List[dict]:
    n = rng.randrange(1, 13)
    p_invalid = rng.choice([0.0, 0.0, 0.1, 0.3])
    p_hidden = rng.choice([0.0, 0.15, 0.3])
    p_badutf = rng.choice([0.0, 0.0, 0.1])
    dirs: List[List[str]] = [[]]
    entries: List[dict] = []
    used = set()
    for _ in range(n):
        parent = dirs[rng.randrange(len(dirs))]
        r = rng.random()
        hidden = r < p_hidden
        invalid = (not hidden) and rng.random() < p_invalid
        if hidden:
            name = rng.choice(HIDDEN_COMPONENTS)
        elif invalid:
            name = rng.choice(INVALID_COMPONENTS)
        else:
            name = rng.choice(VALID_COMPONENTS)
            if rng.random() < 0.3:
                name = name + str(rng.randrange(100))
        path = parent + [name]
        key = "/".join(path)
        if key in used:
            continue
        is_dir = rng.random() < 0.3 and len(path) < 3
        if is_dir:
            used.add(key)
            entries.append({"path": path, "kind": "dir"})
            # never descend below hidden directories except with hidden files
            if not hidden:
                dirs.append(path)
            elif rng.random() < 0.5:
                hn = rng.choice(HIDDEN_COMPONENTS)
                if "/".join(path + [hn]) not in used:
                    used.add("/".join(path + [hn]))
                    entries.append({"path": path + [hn], "kind": "file", "hex": b"hidden".hex()})
        else:
            used.add(key)
            if rng.random() < p_badutf:
                data = rng.choice(BAD_UTF8)
            else:
                lead = "".join(rng.choice(WS) for _ in range(rng.choice([0, 0, 1, 3])))
                tail = "".join(rng.choice(WS) for _ in range(rng.choice([0, 1, 1, 4])))
                data = (lead + rng.choice(BODIES) + tail).encode("utf-8")
            entries.append({"path": path, "kind": "file", "hex": data.hex()})
    return entries


def gen_plan(seed: int, run: int, tier: str) -> dict:
    rng = random.Random(f"{seed}:C25:{run}")
    tree = _gen_tree(rng)
    target = rng.choice(["jsonschema", "xsd", "jsonschema", "xsd", "python", "cpp", "csharp",
                         "golang", "java", "typescript"])
    models = [m.id for m in repo.small_common()]
    return {"engine": "snippets", "seed": seed, "run": run, "tree": tree,
            "orders": rng.choice([2, 2, 3, 4]), "target": target, "model": rng.choice(models),
            "with_required": rng.random() < 0.6, "full_run": run % 3 == 0,
            "root": rng.choice(["plain", "plain", "plain", "hidden_ancestor", "hidden_ancestor_deep",
                                "space_unicode", "dotdot", "relative", "relative_dotdot", "symlink"])}


def _names(message: str, key: str) -> bool:
    """Does the message name the file?  Verbatim, or quoted/escaped (repr, ascii, JSON)."""
    if key in message:
        return True
    import json

    forms = (repr(key)[1:-1], ascii(key)[1:-1], json.dumps(key)[1:-1],
             json.dumps(key, ensure_ascii=False)[1:-1])
    return any(f in message for f in forms)


def _is_hidden(path: List[str]) -> bool:
    return any(c.startswith(".") for c in path)


def _write_tree(root: str, tree: List[dict], extra: Dict[str, str]) -> None:
    for e in tree:
        p = os.path.join(root, *e["path"])
        if e["kind"] == "dir":
            os.makedirs(p, exist_ok=True)
        else:
            os.makedirs(os.path.dirname(p), exist_ok=True)
            with kernel.real_open(p, "wb") as f:
                f.write(bytes.fromhex(e["hex"]))
    for rel, content in extra.items():
        p = os.path.join(root, rel)
        os.makedirs(os.path.dirname(p), exist_ok=True)
        with kernel.real_open(p, "w", encoding="utf-8", newline="") as f:
            f.write(content)


def execute(plan: dict) -> dict:
    repo.activate()
    from aas_core_codegen import specific_implementations as si

    stats: Dict[str, int] = {}
    violations: List[dict] = []
    out: Dict[str, Any] = {"plan": plan, "violations": violations, "stats": stats,
                           "distinct": [], "inconclusive": None, "digest": None, "sample": None}
    tree = plan["tree"]
    target = plan["target"]
    extra: Dict[str, str] = {}
    taken = {"/".join(e["path"]) for e in tree}
    if plan.get("with_required"):
        for rel, content in repo.min_snippets(target).items():
            if rel not in taken and not any(t.startswith(rel + "/") or rel.startswith(t + "/")
                                            for t in taken):
                extra[rel] = "\n " + content + " \n\n"

    # ---- reference model
    expected: Dict[str, str] = {}
    offenders: List[str] = []
    n_visible = 0
    for e in tree:
        if e["kind"] != "file" or _is_hidden(e["path"]):
            continue
        n_visible += 1
        key = "/".join(e["path"])
        if si.IMPLEMENTATION_KEY_RE.fullmatch(key) is None:
            offenders.append(key)
            continue
        try:
            expected[key] = bytes.fromhex(e["hex"]).decode("utf-8").strip()
        except UnicodeDecodeError:
            offenders.append(key)
    for rel, content in extra.items():
        expected[rel] = content.strip()

    sb = kernel.Sandbox()
    h = hashlib.sha256()
    try:
        # where the snippets directory lives and how it is named on the command line
        root_variant = plan.get("root", "plain")
        cwd0 = os.getcwd()
        chdir_to = None
        if root_variant == "hidden_ancestor":
            sdir = sdir_arg = sb.path("snippets", ".hidden", "s")
        elif root_variant == "hidden_ancestor_deep":
            sdir = sdir_arg = sb.path("snippets", ".cache", "proj", "s")
        elif root_variant == "space_unicode":
            sdir = sdir_arg = sb.path("snippets", "with space", "\u00fcn\u00ef", "s")
        elif root_variant == "dotdot":
            sdir = sb.path("snippets", "s")
            os.makedirs(sb.path("snippets", "x"))
            sdir_arg = sb.path("snippets", "x", "..", "s")
        elif root_variant == "relative":
            sdir = sb.path("snippets", "s")
            sdir_arg, chdir_to = "s", sb.path("snippets")
        elif root_variant == "relative_dotdot":
            sdir = sb.path("snippets", "s")
            os.makedirs(sb.path("snippets", "x"))
            sdir_arg, chdir_to = os.path.join("..", "s"), sb.path("snippets", "x")
        elif root_variant == "symlink":
            sdir = sb.path("snippets", "real")
            sdir_arg = sb.path("snippets", "link")
        else:
            sdir = sdir_arg = sb.path("snippets", "s")
        os.makedirs(sdir)
        if root_variant == "symlink":
            os.symlink(sdir, sdir_arg)
        stats["probe:root_" + root_variant] = 1
        try:
            _write_tree(sdir, tree, extra)
        except (OSError, ValueError) as error:
            out["inconclusive"] = f"tree-not-creatable:{type(error).__name__}"
            return out
        results = []
        for k in range(int(plan["orders"])):
            sim = kernel.Sim(sb, seed_text=f"{plan['seed']}:C25:{plan['run']}:{k}",
                             sched_roles=(), fault_roles=("snippets",), shuffle_listing=True)
            box: Dict[str, Any] = {}

            def fn() -> None:
                if chdir_to is not None:
                    os.chdir(chdir_to)
                try:
                    box["r"] = si.read_from_directory(pathlib.Path(sdir_arg))
                finally:
                    os.chdir(cwd0)

            actor = sim.spawn("load", fn)
            sim.run()
            stats["seam_steps"] = stats.get("seam_steps", 0) + sim.seq
            stats["loads"] = stats.get("loads", 0) + 1
            if actor.exc is not None:
                violations.append({
                    "property": "C25", "class": f"exception:{actor.exc[0]}@{actor.exc[2]}",
                    "detail": f"read_from_directory raised {actor.exc[0]}: {actor.exc[1][:200]!r} "
                              f"for tree {[('/'.join(e['path']), e['kind']) for e in tree]!r}"})
                break
            mapping, errors = box["r"]
            results.append((mapping, errors))
            h.update(repr((sorted(mapping.items()) if mapping is not None else None,
                           sorted(errors) if errors is not None else None)
                          ).replace(sb.root, "<SB>").encode("utf-8", "surrogatepass"))
            if offenders:
                stats["trees_invalid"] = stats.get("trees_invalid", 0) + (1 if k == 0 else 0)
                if errors is None or mapping is not None:
                    violations.append({
                        "property": "C25", "class": "invalid-tree-accepted",
                        "detail": f"files {offenders[:3]!r} have an invalid key or content but "
                                  f"loading succeeded"})
                    break
                missing = [o for o in offenders if not any(_names(err, o) for err in errors)]
                if missing:
                    violations.append({
                        "property": "C25", "class": "error-does-not-name-file",
                        "detail": f"no error names {missing[:3]!r}; errors: {errors[:3]!r}"})
                    break
            else:
                stats["trees_valid"] = stats.get("trees_valid", 0) + (1 if k == 0 else 0)
                if mapping is None:
                    violations.append({
                        "property": "C25", "class": "valid-tree-rejected",
                        "detail": f"all keys/contents valid but errors reported: {(errors or [])[:3]!r}"})
                    break
                got = {str(k2): str(v) for k2, v in mapping.items()}
                if got != expected:
                    keys = sorted(k2 for k2 in set(got) | set(expected) if got.get(k2) != expected.get(k2))
                    k0 = keys[0]
                    if k0 not in got:
                        cls, what = "file-not-loaded", f"missing key {k0!r}"
                    elif k0 not in expected:
                        cls, what = "unexpected-key", f"unexpected key {k0!r}"
                    else:
                        cls, what = "content-not-stripped-exactly", \
                            f"key {k0!r}: {got[k0]!r} != {expected[k0]!r}"
                    violations.append({"property": "C25", "class": cls,
                                       "detail": f"mapping differs from the tree: {what}"})
                    break
        if not violations and len(results) > 1:
            first = results[0]
            for other in results[1:]:
                same = (first[0] == other[0]) and (
                    sorted(first[1] or []) == sorted(other[1] or []))
                if not same:
                    violations.append({"property": "C25", "class": "depends-on-listing-order",
                                       "detail": "result changes with the listing order"})
                    break

        # ---- full run through main.execute
        if plan.get("full_run") and not violations:
            text = workload.materialise({"model": plan["model"]})
            model_path = sb.path("models", "meta_model.py")
            with kernel.real_open(model_path, "w", encoding="utf-8", newline="") as f:
                f.write(text)
            out_dir = sb.path("out", "o")
            os.makedirs(out_dir)
            sim = kernel.Sim(sb, seed_text=f"{plan['seed']}:C25:{plan['run']}:full",
                             sched_roles=(), fault_roles=("snippets",), shuffle_listing=True)
            box2: Dict[str, repo.RunResult] = {}

            def fn2() -> None:
                if chdir_to is not None:
                    os.chdir(chdir_to)
                try:
                    box2["res"] = repo.run_generator(model_path, target, sdir_arg, out_dir,
                                                     cache=False)
                finally:
                    os.chdir(cwd0)

            actor = sim.spawn("run", fn2)
            sim.run()
            stats["full_runs"] = stats.get("full_runs", 0) + 1
            res = box2.get("res")
            exc = actor.exc or (res.exc if res is not None else None)
            if exc is not None and not offenders:
                # A crash of the generator on the *loaded* snippets (e.g. a namespace snippet
                # that is no identifier) is a pure-input matter (C02), not a loading matter:
                # it is one iff the run with the expected mapping as clean snippets crashes alike.
                ref = repo.reference(text, target, snippets=dict(expected))
                if ref.exc is not None and ref.exc[0] == exc[0]:
                    stats["generator_crash_not_judged"] = stats.get("generator_crash_not_judged", 0) + 1
                    exc = None
                    res = None
            if exc is not None:
                violations.append({
                    "property": "C25", "class": f"run-exception:{exc[0]}@{exc[2]}",
                    "detail": f"main.execute raised {exc[0]}: {exc[1][:200]!r}"})
            elif res is not None:
                if offenders:
                    if res.rc == 0:
                        violations.append({"property": "C25", "class": "run-succeeds-on-invalid-tree",
                                           "detail": f"rc 0 although {offenders[:3]!r} are invalid"})
                    else:
                        # the report indents continuation lines of an entry by two blanks
                        flat = res.err.replace("\n  ", "\n")
                        missing = [o for o in offenders
                                   if not _names(res.err, o) and not _names(flat, o)]
                        if missing:
                            violations.append({
                                "property": "C25", "class": "run-error-does-not-name-file",
                                "detail": f"stderr does not name {missing[:3]!r}: {res.err[:300]!r}"})
                else:
                    ref = repo.reference(text, target, snippets=dict(expected))
                    if ref.exc is None:
                        res.files = repo.hash_tree(out_dir)
                        if (res.rc, res.err, res.files) != (ref.rc, ref.err, ref.files):
                            violations.append({
                                "property": "C25", "class": "run-differs-from-clean-snippets",
                                "detail": f"run with the tree differs from a run with the expected "
                                          f"mapping as snippets: rc {res.rc}/{ref.rc}, stderr "
                                          f"{res.err[:200]!r}/{ref.err[:200]!r}"})
                        stats["full_runs_compared"] = stats.get("full_runs_compared", 0) + 1
                breach = repo.c03_monitor(res)
                if breach is not None:
                    violations.append({"property": "C25", "class": "c03:" + breach.split(":")[0][:40],
                                       "detail": breach})
        shape = sorted(
            (e["kind"], len(e["path"]), "h" if _is_hidden(e["path"]) else
             ("i" if "/".join(e["path"]) in offenders else "v")) for e in tree)
        if n_visible:
            out["distinct"] = [hashlib.sha256(repr(shape).encode()).hexdigest()[:16]]
        out["digest"] = h.hexdigest()
        if plan["run"] % 2000 == 0 or violations:
            out["sample"] = {"run": plan["run"],
                             "tree": [["/".join(e["path"]), e["kind"],
                                       bytes.fromhex(e.get("hex", "")).decode("utf-8", "replace")[:40]]
                                      for e in tree],
                             "expected_keys": sorted(expected), "offenders": offenders,
                             "orders": plan["orders"]}
    finally:
        sb.cleanup()
    return out


def reductions(plan: dict) -> Iterator[dict]:
    import copy

    tree = plan["tree"]
    if plan.get("with_required"):
        p = copy.deepcopy(plan)
        p["with_required"] = False
        yield p
    n = len(tree)
    size = max(1, n // 2)
    while n > 1 and size >= 1:
        for start in range(0, n, size):
            p = copy.deepcopy(plan)
            del p["tree"][start:start + size]
            if p["tree"]:
                yield p
        if size == 1:
            break
        size //= 2
    if plan["orders"] > 1:
        p = copy.deepcopy(plan)
        p["orders"] = 1
        yield p
    if plan.get("root", "plain") != "plain":
        p = copy.deepcopy(plan)
        p["root"] = "plain"
        yield p
    for i, e in enumerate(tree):
        if e["kind"] == "file" and e.get("hex") not in ("", "78"):
            p = copy.deepcopy(plan)
            p["tree"][i]["hex"] = "78"
            yield p
