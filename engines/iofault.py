"""C02 / C03 -- behaviour under disk faults on the output tree (DESIGN.md section 3).

Every target's ``execute`` wraps each ``mkdir`` and ``write_text`` in ``try/except Exception
-> write_error_report -> return 1``.  Here every seam event inside the output directory of a
recorded fault-free run (each mkdir, open, raw write, close) is failed in turn with every
applicable errno (exhaustively for single faults on the small common models; seeded samples
for double faults, state faults, the rest of the corpus and aas_core_meta.v3).

The two registered checks share this module: ``iofault_c02`` judges "no exception escapes",
``iofault_c03`` judges the exit-status / stderr / stdout / output-tree contract.
"""
from __future__ import annotations

import errno
import hashlib
import os
import random
from typing import Any, Dict, Iterator, List, Optional, Tuple

from dsim import kernel, repo, workload

LEVEL = "fault_enumeration"

ERRNOS = {
    "mkdir": [errno.EACCES, errno.ENOSPC, errno.EROFS, errno.EDQUOT, errno.EIO,
              errno.ENAMETOOLONG, errno.EMLINK],
    "open_w": [errno.EACCES, errno.ENOSPC, errno.EROFS, errno.EDQUOT, errno.EIO, errno.EMFILE,
               errno.ENFILE, errno.ENAMETOOLONG, errno.EISDIR, errno.ETXTBSY],
    "write": [errno.ENOSPC, errno.EIO, errno.EDQUOT, errno.EFBIG],
    "close_w": [errno.EIO, errno.ENOSPC, errno.EDQUOT],
}
FAULTABLE = frozenset(ERRNOS)

_WORK: Dict[str, List[dict]] = {}
SLICE = 70


def _record(sb: kernel.Sandbox, model_path: str, target: str, sdir: str, out_dir: str,
            knobs: dict) -> Tuple[List[Tuple[int, str, str]], repo.RunResult]:
    sim = kernel.Sim(sb, seed_text="record", sched_roles=(), fault_roles=("out",),
                     faults=[], schedule=[], bufsize=knobs.get("bufsize", 8192),
                     max_io=knobs.get("max_io", 1 << 30), shuffle_listing=False)
    box: Dict[str, repo.RunResult] = {}

    def fn() -> None:
        box["res"] = repo.run_generator(model_path, target, sdir, out_dir, cache=False)

    actor = sim.spawn("gen", fn)
    sim.run()
    steps = []
    n = 0
    for ev in sim.trace:
        n += 1
        steps.append((n, ev[2], ev[3]))
    res = box.get("res") or repo.RunResult(None, "", "", actor.exc)
    return steps, res


def _enumerate_single(steps: List[Tuple[int, str, str]]) -> List[List[dict]]:
    faults: List[List[dict]] = []
    for n, kind, _ in steps:
        if kind not in FAULTABLE:
            continue
        for e in ERRNOS[kind]:
            faults.append([{"step": n, "fault": "errno", "errno": e}])
        if kind == "write":
            faults.append([{"step": n, "fault": "errno", "errno": errno.ENOSPC, "k": 1}])
            faults.append([{"step": n, "fault": "errno", "errno": errno.EIO, "k": 7}])
        # persistent conditions: the same operation on the same path fails again on a retry
        if kind == "open_w":
            faults.append([{"step": n, "fault": "errno", "errno": errno.EACCES, "sticky": True}])
            faults.append([{"step": n, "fault": "errno", "errno": errno.EROFS, "sticky": True}])
        elif kind == "write":
            faults.append([{"step": n, "fault": "errno", "errno": errno.ENOSPC, "sticky": True}])
        elif kind == "mkdir":
            faults.append([{"step": n, "fault": "errno", "errno": errno.EACCES, "sticky": True}])
    return faults


def work_items(seed: int, tier: str) -> List[dict]:
    key = f"{seed}:{tier}"
    if key in _WORK:
        return _WORK[key]
    ok = workload.pairs_with("ok")
    common = sorted({m for m, _ in ok if m.startswith("common/")})
    rng = random.Random(f"{seed}:iofault:work")
    n_exh = 1 if tier == "quick" else len(common)
    exh_models = common[:]
    rng.shuffle(exh_models)
    exh_models = sorted(exh_models[:n_exh])
    items: List[dict] = []
    # exhaustive single faults, sliced
    for model in exh_models:
        for target in repo.TARGETS:
            if (model, target) not in ok:
                continue
            sb = kernel.Sandbox(tag="-plan")
            try:
                mp = sb.path("models", "meta_model.py")
                with kernel.real_open(mp, "w", encoding="utf-8", newline="") as f:
                    f.write(workload.materialise({"model": model}))
                sdir = sb.path("snippets", "s")
                repo.write_tree(sdir, repo.min_snippets(target))
                steps, _ = _record(sb, mp, target, sdir, sb.path("out"), {})
            finally:
                sb.cleanup()
            total = len(_enumerate_single(steps))
            for lo in range(0, total, SLICE):
                items.append({"model": model, "target": target, "mode": "slice", "lo": lo,
                              "hi": min(total, lo + SLICE)})
    # sampled: rest of the corpus
    rest = [p for p in ok if p[0] not in exh_models]
    rng.shuffle(rest)
    frac = 0.08 if tier == "quick" else 0.5
    for model, target in rest[: max(8, int(len(rest) * frac))]:
        items.append({"model": model, "target": target, "mode": "sample", "n": 14})
    # state faults + double faults + benign short writes on the exhaustive models
    for model in exh_models:
        for target in repo.TARGETS:
            if (model, target) in ok:
                items.append({"model": model, "target": target, "mode": "sample", "n": 10,
                              "mix": "state+double+benign"})
    # the big model
    n_big = 2 if tier == "quick" else 8
    for target in repo.TARGETS[:n_big] if tier != "quick" else ["jsonschema", "xsd"]:
        items.append({"model": "common/aas_core_meta.v3", "target": target, "mode": "sample",
                      "n": 6 if tier == "quick" else 40, "big": True})
    _WORK[key] = items
    return items


def prepare_common(tier: str, tiers: dict) -> None:
    workload.usable_table()
    from dsim import driver

    tiers[tier]["runs"] = len(work_items(driver.base_seed(), tier))


def describe_common(what: str) -> dict:
    return {
        "rule": (
            "one work item = a (model, target) pair whose fault-free run is "
            "recorded first, then re-run once per fault: 'slice' items enumerate every "
            "(seam event in the output dir) x (applicable errno, plus partial writes, plus persistent "
            "variants that fail again on every retry of the same operation on the same path) "
            "exhaustively for the small common models; 'sample' items draw single and double "
            "faults, state faults (directory where a file is needed, file where a directory is "
            "needed, stale longer files, stale non-UTF-8 files), unusual directory layouts (output dir beneath / equal "
            "to the snippets dir, beneath the model dir, absent and nested, a symlink) and "
            "benign short-write runs; one evaluation = one faulted run. distinct = distinct "
            "(target, operation kind, errno/fault kind, outcome class) combinations exercised "
            "with a fault that actually fired. " + what
        ),
        "real": ["aas_core_codegen incl. every <target>/main.py:execute error path", "pathlib",
                 "io buffering", "tmpfs (state faults are real file-system states)"],
        "stub": ["injected errno values / short writes at the raw-file and os.mkdir seams"],
        "assumptions": [
            "faults are injected only inside the output directory, at operations of <target>/main.py:execute; failing reads of the model/snippets and failing stdout/stderr writes are outside the statements",
            "pathlib.mkdir(exist_ok=True) legitimately swallows an injected error when the directory exists",
        ],
        "exhaustive": False,
    }


def gen_plan_common(seed: int, run: int, tier: str) -> dict:
    item = dict(work_items(seed, tier)[run])
    rng = random.Random(f"{seed}:iofault:{run}")
    knobs = {"bufsize": rng.choice([512, 8192, 8192, 65536]),
             "max_io": rng.choice([1 << 30, 1 << 30, 4096])}
    if item["mode"] == "slice":
        # the slices were cut on a recording with the default knobs: keep the enumeration aligned
        knobs = {"bufsize": 8192, "max_io": 1 << 30}
    item.update({"engine": "iofault", "seed": seed, "run": run,
                 "sample_seed": rng.randrange(1 << 30), "knobs": knobs})
    return item


def _classify_outcome(res: repo.RunResult) -> str:
    if res.exc is not None:
        return "raised"
    return "rc0" if res.rc == 0 else "reported"


def execute_common(plan: dict, judge: str) -> dict:
    repo.activate()
    stats: Dict[str, int] = {}
    violations: List[dict] = []
    out: Dict[str, Any] = {"plan": plan, "violations": violations, "stats": stats,
                           "distinct": [], "inconclusive": None, "digest": None, "sample": None}
    model, target = plan["model"], plan["target"]
    text = workload.materialise({"model": model})
    big = model == "common/aas_core_meta.v3"
    knobs = plan.get("knobs", {})
    sb = kernel.Sandbox()
    h = hashlib.sha256()
    distinct = set()
    try:
        mp = sb.path("models", "meta_model.py")
        with kernel.real_open(mp, "w", encoding="utf-8", newline="") as f:
            f.write(text)
        if big:
            sdir = repo.big_snippets_dir(target)
        else:
            sdir = sb.path("snippets", "s")
            repo.write_tree(sdir, repo.min_snippets(target))
        rec_out = sb.path("out", "rec")
        os.makedirs(rec_out)
        steps, ref = _record(sb, mp, target, sdir, rec_out, knobs)
        if ref.exc is not None or ref.rc != 0:
            out["inconclusive"] = "fault-free-run-not-ok"
            return out
        ref.files = repo.hash_tree(rec_out)
        ref_names = sorted(ref.files)

        # ---- which faults
        mode = plan["mode"]
        if mode == "slice":
            faults = _enumerate_single(steps)[plan["lo"]:plan["hi"]]
        elif mode == "explicit":
            faults = plan["faults"]
        else:
            rng = random.Random(plan["sample_seed"])
            single = _enumerate_single(steps)
            faults = []
            mix = plan.get("mix", "single+double")
            for _ in range(int(plan["n"])):
                r = rng.random()
                if "state" in mix and r < 0.15 and not big:
                    # unusual but legal directory layouts: only the contract is judged
                    faults.append([{"fault": "layout", "kind": rng.choice(
                        ["out_beneath_snippets", "out_is_snippets", "out_absent_nested",
                         "out_is_symlink", "out_beneath_model_dir"])}])
                elif "state" in mix and r < 0.4 and ref_names:
                    kind = rng.choice(["dir_at_file", "file_at_dir", "stale_longer", "stale_binary",
                                       "stale_binary"])
                    faults.append([{"fault": "state", "kind": kind, "path": rng.choice(ref_names)}])
                elif "benign" in mix and r < 0.55:
                    faults.append([{"fault": "benign", "bufsize": rng.choice([1, 7, 64]),
                                    "max_io": rng.choice([3, 50, 1000])}])
                elif r < 0.8 or len(single) < 2:
                    faults.append(single[rng.randrange(len(single))])
                else:
                    a, b = sorted(rng.sample(range(len(single)), 2))
                    if single[a][0]["step"] != single[b][0]["step"]:
                        faults.append([single[a][0], single[b][0]])
                    else:
                        faults.append(single[a])

        # ---- one run per fault
        failing_faults = []
        for n_f, fault_set in enumerate(faults):
            out_dir = sb.path("out", f"f{n_f}")
            os.makedirs(out_dir)
            k_bufsize, k_max_io = knobs.get("bufsize", 8192), knobs.get("max_io", 1 << 30)
            sim_faults = []
            label = []
            expect_identical = False
            run_sdir = sdir
            for flt in fault_set:
                if flt["fault"] == "layout":
                    import shutil as _shutil

                    os.rmdir(out_dir)
                    if flt["kind"] in ("out_beneath_snippets", "out_is_snippets"):
                        run_sdir = sb.path("snippets", f"layout{n_f}")
                        _shutil.copytree(sdir, run_sdir)
                        out_dir = (run_sdir if flt["kind"] == "out_is_snippets"
                                   else os.path.join(run_sdir, "generated", "code"))
                        if flt["kind"] == "out_beneath_snippets":
                            os.makedirs(out_dir)
                    elif flt["kind"] == "out_absent_nested":
                        out_dir = sb.path("out", f"f{n_f}", "does", "not", "exist yet")
                    elif flt["kind"] == "out_is_symlink":
                        real_dir = sb.path("out", f"real{n_f}")
                        os.makedirs(real_dir)
                        os.symlink(real_dir, out_dir)
                    elif flt["kind"] == "out_beneath_model_dir":
                        out_dir = sb.path("models", f"gen{n_f}")
                        os.makedirs(out_dir)
                    label.append(f"layout:{flt['kind']}")
                elif flt["fault"] == "state":
                    p = os.path.join(out_dir, flt["path"])
                    if flt["kind"] == "dir_at_file":
                        os.makedirs(p)
                    elif flt["kind"] == "file_at_dir":
                        d = os.path.dirname(flt["path"])
                        if not d:
                            flt = dict(flt, kind="stale_longer")
                            os.makedirs(os.path.dirname(p), exist_ok=True)
                            with kernel.real_open(p, "wb") as f:
                                f.write(b"stale " * 5000)
                        else:
                            top = os.path.join(out_dir, d.split(os.sep)[0])
                            with kernel.real_open(top, "wb") as f:
                                f.write(b"i am a file")
                    if flt["kind"] in ("stale_longer", "stale_binary"):
                        os.makedirs(os.path.dirname(p), exist_ok=True)
                        with kernel.real_open(p, "wb") as f:
                            f.write(b"stale " * 5000 if flt["kind"] == "stale_longer"
                                    else b"\xff\xfe\x00\x81binary leftover \xc3\x28" * 300)
                        expect_identical = True
                    label.append(f"state:{flt['kind']}")
                elif flt["fault"] == "benign":
                    k_bufsize, k_max_io = flt["bufsize"], flt["max_io"]
                    expect_identical = True
                    label.append("benign:short-writes")
                else:
                    f2 = dict(flt)
                    f2["actor"] = "gen"
                    sim_faults.append(f2)
                    kind = next((s[1] for s in steps if s[0] == flt["step"]), "?")
                    label.append(f"{kind}:{errno.errorcode.get(flt['errno'], flt['errno'])}"
                                 + (":partial" if flt.get("k") else "")
                                 + (":persistent" if flt.get("sticky") else ""))
            sim = kernel.Sim(sb, seed_text="fault", sched_roles=(), fault_roles=("out",),
                             faults=sim_faults, schedule=[], bufsize=k_bufsize, max_io=k_max_io,
                             shuffle_listing=False, step_cap=600000)
            box: Dict[str, repo.RunResult] = {}

            def fn() -> None:
                box["res"] = repo.run_generator(mp, target, run_sdir, out_dir, cache=False)

            actor = sim.spawn("gen", fn)
            sim.run()
            if sim.capped:
                stats["runs_cut_at_step_cap"] = stats.get("runs_cut_at_step_cap", 0) + 1
                continue
            res = box.get("res") or repo.RunResult(None, "", "", actor.exc)
            if actor.exc is not None and res.exc is None:
                res.exc = actor.exc
            if res.rc is None and res.exc is None:
                raise kernel.HarnessError("actor ended without result and without exception")
            stats["faulted_runs"] = stats.get("faulted_runs", 0) + 1
            stats["evaluations"] = stats.get("evaluations", 0) + 1
            stats["seam_steps"] = stats.get("seam_steps", 0) + sim.seq
            fired = len(sim.faults_fired)
            if sim.sticky_hits:
                stats["probe:persistent_fault_hit_again_on_retry"] = \
                    stats.get("probe:persistent_fault_hit_again_on_retry", 0) + 1
            for f3 in sim.faults_fired:
                lab = f"{f3['op']}:{errno.errorcode.get(f3.get('errno', 0), f3['fault'])}"
                if f3.get("sticky"):
                    lab += ":persistent"
                stats["fault:" + lab] = stats.get("fault:" + lab, 0) + 1
            for lab in label:
                if lab.startswith(("state", "benign", "layout")):
                    stats["fault:" + lab] = stats.get("fault:" + lab, 0) + 1
            if sim_faults and not fired:
                stats["faults_not_fired"] = stats.get("faults_not_fired", 0) + 1
            outcome = _classify_outcome(res)
            stats["outcome:" + outcome] = stats.get("outcome:" + outcome, 0) + 1
            if fired or not sim_faults:
                distinct.add(f"{target}|{'+'.join(label)}|{outcome}")
            h.update(repr((label, res.rc, res.err[:200], outcome)).encode())

            vs: List[dict] = []
            tag = "+".join(label)
            if res.exc is not None:
                if judge == "C02":
                    vs.append({"property": "C02",
                               "class": f"exception-under-fault:{res.exc[0]}@{res.exc[2]}",
                               "detail": f"{model} x {target}, fault {tag}: main.execute raised "
                                         f"{res.exc[0]}: {res.exc[1][:300]} at {res.exc[2]}"})
            elif judge == "C03":
                files = repo.hash_tree(out_dir)
                breach = repo.c03_monitor(res)
                if breach is not None:
                    vs.append({"property": "C03", "class": "contract:" + breach.split(":")[0][:50],
                               "detail": f"{model} x {target}, fault {tag}: {breach}"})
                elif res.rc == 0:
                    if os.path.islink(out_dir) or not os.path.isdir(out_dir):
                        files = repo.hash_tree(os.path.realpath(out_dir))
                    same = all(files.get(k) == v for k, v in ref.files.items())
                    if not same:
                        bad = sorted(k for k, v in ref.files.items() if files.get(k) != v)
                        vs.append({"property": "C03", "class": "exit-0-with-damaged-output",
                                   "detail": f"{model} x {target}, fault {tag}: rc 0 and empty "
                                             f"stderr but output files {bad[:4]} are missing or differ "
                                             f"from the fault-free run"})
                elif expect_identical and not sim_faults:
                    vs.append({"property": "C03", "class": "benign-condition-reported-as-failure",
                               "detail": f"{model} x {target}, {tag}: rc {res.rc}, stderr {res.err[:300]!r}"})
            if vs:
                violations.extend(vs)
                failing_faults.append(fault_set)
                if len(failing_faults) >= 3:
                    break
        if failing_faults:
            plan = dict(plan)
            plan["mode"] = "explicit"
            plan["faults"] = failing_faults
            out["plan"] = plan
        out["distinct"] = sorted(distinct)
        out["digest"] = h.hexdigest()
        if plan["run"] % 25 == 0 or violations:
            out["sample"] = {"run": plan["run"], "model": model, "target": target,
                             "mode": plan["mode"], "recorded_steps": len(steps),
                             "first_steps": [f"{s[0]} {s[1]} {s[2]}" for s in steps[:12]],
                             "n_faults": len(faults),
                             "first_faults": [[{k: v for k, v in f.items()} for f in fs] for fs in faults[:4]]}
    finally:
        sb.cleanup()
    return out


def reductions(plan: dict) -> Iterator[dict]:
    import copy

    if plan.get("mode") != "explicit":
        return
    faults = plan["faults"]
    if len(faults) > 1:
        for i in range(len(faults)):
            p = copy.deepcopy(plan)
            p["faults"] = [faults[i]]
            yield p
    for i, fs in enumerate(faults):
        if len(fs) > 1:
            for j in range(len(fs)):
                p = copy.deepcopy(plan)
                p["faults"][i] = [fs[j]]
                yield p
    if plan.get("knobs", {}).get("bufsize") != 8192 or plan.get("knobs", {}).get("max_io") != (1 << 30):
        p = copy.deepcopy(plan)
        p["knobs"] = {"bufsize": 8192, "max_io": 1 << 30}
        yield p
