"""C03 (I/O-fault slice): exit status, stderr, stdout and output tree stay consistent under disk faults."""
from engines import iofault as _core

PROPERTY_IDS = ["C03"]
LEVEL = _core.LEVEL
tiers = {
    "quick": {"runs": 0, "chunk": 1, "wall_cap_s": 2400, "determinism_samples": 4,
              "max_minimise": 3, "minimise_budget_s": 30},
    "thorough": {"runs": 0, "chunk": 1, "wall_cap_s": 7200, "determinism_samples": 12,
                 "max_minimise": 5, "minimise_budget_s": 90},
}


def prepare(tier):
    _core.prepare_common(tier, tiers)


def describe():
    return _core.describe_common("Judged here: rc == 0 iff stderr empty; rc 0 implies the Code-generated line and an output tree identical to the fault-free run; rc != 0 implies a non-empty report whose first bullet follows a headline ending in a colon; benign conditions (short writes, stale longer files) must end in rc 0 (C03).")


def gen_plan(seed, run, tier):
    return _core.gen_plan_common(seed, run, tier)


def execute(plan):
    return _core.execute_common(plan, "C03")


reductions = _core.reductions
