"""C02 (I/O-fault slice): no exception escapes main.execute under disk faults on the output tree."""
from engines import iofault as _core

PROPERTY_IDS = ["C02"]
LEVEL = _core.LEVEL
tiers = {
    "quick": {"runs": 0, "chunk": 1, "wall_cap_s": 2400, "determinism_samples": 4,
              "max_minimise": 3, "minimise_budget_s": 30},
    "thorough": {"runs": 0, "chunk": 1, "wall_cap_s": 7200, "determinism_samples": 12,
                 "max_minimise": 5, "minimise_budget_s": 90},
}


def prepare(tier):
    _core.prepare_common(tier, tiers)


def describe():
    return _core.describe_common("Judged here: no exception escapes main.execute (C02).")


def gen_plan(seed, run, tier):
    return _core.gen_plan_common(seed, run, tier)


def execute(plan):
    return _core.execute_common(plan, "C02")


reductions = _core.reductions
