"""C23 -- model caching is opt-in and transparent (DESIGN.md section 2, C23).

A seeded history of SetModel / Run(cache on|off, via CLI main or Parameters) / WipeCache
operations against one sandboxed file system.  Reference model: the uncached run.  The audit
hook records every file-system event of every run.
"""
from __future__ import annotations

import hashlib
import os
import pickle
import random
import shutil
from typing import Any, Dict, Iterator, List, Optional, Tuple

from dsim import kernel, repo, workload

PROPERTY_IDS = ["C23"]
LEVEL = "exploration"

tiers = {
    "quick": {"runs": 1500, "chunk": 25, "wall_cap_s": 2400, "determinism_samples": 6,
              "max_minimise": 3, "minimise_budget_s": 40},
    "thorough": {"runs": 25000, "chunk": 60, "wall_cap_s": 7200, "determinism_samples": 30,
                 "max_minimise": 5, "minimise_budget_s": 120},
}

MUTATING = frozenset(
    ["os.rename", "os.remove", "os.mkdir", "os.rmdir", "os.truncate", "os.link", "os.symlink",
     "os.chmod", "os.utime", "shutil.copyfile", "shutil.move", "shutil.rmtree",
     "shutil.copytree", "tempfile.mkstemp", "tempfile.mkdtemp"]
)


def prepare(tier: str) -> None:
    workload.usable_table()


def describe() -> dict:
    return {
        "rule": (
            "one evaluation = one history of 3-10 operations (set model text variant at a path, "
            "run a target with/without --cache_model through main.main(argv) or "
            "Parameters+execute, wipe the cache) on one sandbox, plus for ~1 in 4 histories a "
            "direct pickle round trip of the symbol table compared by dump text, aliasing "
            "structure, id-sets and is_subclass_of/find queries. distinct = distinct "
            "(operation kind, cache flag, cache state cold/warm/stale-for-other-text, entry "
            "point, outcome class) sequences containing at least one warm cached run."
        ),
        "real": ["aas_core_codegen incl. argparse plumbing of main.main", "pickle", "pathlib",
                 "tmpfs file system", "sys.addaudithook event stream of CPython"],
        "stub": ["the OS temp directory is redirected into the sandbox (tempfile.tempdir)",
                 "sys.argv / sys.stdout / sys.stderr are swapped per run"],
        "assumptions": [
            "'reads the cache' means an audited open() of a path under the temp directory; stat/listdir alone are logged, not judged",
            "a run reused an entry iff it opened a file under the temp dir for reading and raised no compile() audit event for its own model text",
        ],
    }


# --------------------------------------------------------------------------------------


def gen_plan(seed: int, run: int, tier: str) -> dict:
    rng = random.Random(f"{seed}:C23:{run}")
    ok_pairs = workload.pairs_with("ok")
    rep_pairs = workload.pairs_with("reported")
    located = workload.located_pairs()
    r = rng.random()
    pref = None
    extra = sorted({m for m, _ in ok_pairs if m.startswith("extra/")})
    if extra and rng.random() < 0.1:
        # the meta-models of /verif with dense cross references (cyclic object graphs)
        model = extra[rng.randrange(len(extra))]
    elif r < 0.55:
        model, _ = ok_pairs[rng.randrange(len(ok_pairs))]
    elif r < 0.9 and located:
        model, pref = located[rng.randrange(len(located))]
    else:
        model, _ = rep_pairs[rng.randrange(len(rep_pairs))]
    table = workload.usable_table()
    targets = [t for t in repo.TARGETS if table.get((model, t)) in ("ok", "reported")]
    if tier == "quick" and rng.random() < 0.5:
        cheap = [t for t in targets if t in repo.CHEAP_TARGETS]
        targets = cheap or targets
    n_var = rng.choice([2, 3, 3, 4])
    variants: List[List[list]] = [[]]
    while len(variants) < n_var:
        k = rng.random()
        if k < 0.45:
            e = [rng.choice(["lead_blank", "lead_comment"]), rng.randrange(1, 4)]
        elif k < 0.6:
            e = [rng.choice(["tail_newline", "tail_comment"]), rng.randrange(1, 3)]
        elif k < 0.85:
            e = [rng.choice(workload.SEMANTIC_EDITS), rng.randrange(1, 9)]
        else:
            e = [rng.choice(workload.BREAKING_EDITS)]
        base = variants[rng.randrange(len(variants))] if rng.random() < 0.3 else []
        cand = list(base) + [e]
        if cand not in variants:
            variants.append(cand)
    rng_tw = random.Random(f"{seed}:C23tw:{run}")  # own stream: the other plans stay as they were
    if rng_tw.random() < 0.15:
        # twin mode: all variants are near-twins of one another (see workload.NAMESPACE_TWINS)
        picks = rng_tw.sample(range(len(workload.NAMESPACE_TWINS)), n_var)
        variants = [[["namespace_twin", k]] for k in picks]
    n_paths = rng.choice([1, 1, 2, 3])
    names = ["meta_model.py", "sub/meta_model.py", "other.py"]
    paths = names[:n_paths]
    init = [rng.randrange(n_var) for _ in paths]
    ops: List[dict] = []
    n_ops = rng.randrange(3, 11)
    p_cache = rng.choice([0.5, 0.7, 0.9])
    for _ in range(n_ops):
        k = rng.random()
        if k < 0.2:
            ops.append({"op": "set", "path": rng.randrange(n_paths), "variant": rng.randrange(n_var)})
        elif k < 0.26:
            ops.append({"op": "wipe"})
        else:
            ops.append({"op": "run", "path": rng.randrange(n_paths),
                        "target": (pref if (pref is not None and rng.random() < 0.6)
                                   else targets[rng.randrange(len(targets))]),
                        "cache": rng.random() < p_cache,
                        "via": "main" if rng.random() < 0.5 else "execute"})
    if not any(o["op"] == "run" for o in ops):
        ops.append({"op": "run", "path": 0, "target": targets[0], "cache": True, "via": "main"})
    return {"engine": "cache_hist", "seed": seed, "run": run, "model": model,
            "variants": variants, "paths": paths, "init": init, "ops": ops,
            "ir_check": run % 4 == 0}


# --------------------------------------------------------------------------------------


def _sha(text: str) -> str:
    return hashlib.sha256(text.encode("utf-8", "surrogatepass")).hexdigest()


def _snapshot_tmp(root: str) -> Dict[str, Tuple[int, int, str]]:
    snap = {}
    for dirpath, _, files in os.walk(root):
        for fn in files:
            p = os.path.join(dirpath, fn)
            try:
                st = os.stat(p)
                with kernel.real_open(p, "rb") as f:
                    h = hashlib.sha256(f.read()).hexdigest()[:16]
                snap[os.path.relpath(p, root)] = (st.st_ino, st.st_size, h)
            except OSError:
                pass
    return snap


def execute(plan: dict) -> dict:
    repo.activate()
    stats: Dict[str, int] = {}
    violations: List[dict] = []
    out: Dict[str, Any] = {"plan": plan, "violations": violations, "stats": stats,
                           "distinct": [], "inconclusive": None, "digest": None, "sample": None}
    texts = [workload.materialise({"model": plan["model"], "edits": v}) for v in plan["variants"]]
    # references
    refs: Dict[Tuple[int, str], repo.RunResult] = {}
    cur = list(plan["init"])
    for op in plan["ops"]:
        if op["op"] == "set":
            cur[op["path"]] = op["variant"]
        elif op["op"] == "run":
            key = (cur[op["path"]], op["target"])
            if key not in refs:
                ref = repo.reference(texts[key[0]], op["target"])
                if ref.exc is not None:
                    out["inconclusive"] = "reference-raises"
                    return out
                refs[key] = ref

    sb = kernel.Sandbox()
    history_sig: List[str] = []
    h = hashlib.sha256()
    try:
        for target in repo.TARGETS:
            repo.write_tree(sb.path("snippets", target), repo.min_snippets(target))
        cur = list(plan["init"])
        for i, p in enumerate(plan["paths"]):
            full = sb.path("models", p)
            os.makedirs(os.path.dirname(full), exist_ok=True)
            with kernel.real_open(full, "w", encoding="utf-8", newline="") as f:
                f.write(texts[cur[i]])
        producer: Dict[str, str] = {}  # file under tmp (relative) -> sha of the producing text
        snap = _snapshot_tmp(sb.path("tmp"))
        n_run = 0
        warm_seen = False
        for op in plan["ops"]:
            if op["op"] == "set":
                cur[op["path"]] = op["variant"]
                with kernel.real_open(sb.path("models", plan["paths"][op["path"]]), "w",
                                      encoding="utf-8", newline="") as f:
                    f.write(texts[op["variant"]])
                history_sig.append("set")
                continue
            if op["op"] == "wipe":
                for name in os.listdir(sb.path("tmp")):
                    shutil.rmtree(sb.path("tmp", name), ignore_errors=True)
                producer.clear()
                snap = {}
                history_sig.append("wipe")
                continue
            n_run += 1
            vi = cur[op["path"]]
            text = texts[vi]
            text_sha = _sha(text)
            target = op["target"]
            ref = refs[(vi, target)]
            out_dir = sb.path("out", f"r{n_run}")
            os.makedirs(out_dir)
            model_path = sb.path("models", plan["paths"][op["path"]])
            sdir = sb.path("snippets", target)
            sim = kernel.Sim(sb, seed_text=f"{plan['seed']}:C23:{plan['run']}:{n_run}",
                             sched_roles=(), fault_roles=(), shuffle_listing=False)
            box: Dict[str, repo.RunResult] = {}

            def fn() -> None:
                box["res"] = repo.run_generator(model_path, target, sdir, out_dir,
                                                cache=op["cache"], via=op["via"])

            actor = sim.spawn("run", fn)
            actor.log_outside = True
            sim.run()
            res = box.get("res")
            stats["runs_simulated"] = stats.get("runs_simulated", 0) + 1
            stats["seam_steps"] = stats.get("seam_steps", 0) + len(actor.audit)
            # cache state before this run, by the reference model (text sha in producer set)
            state = "warm" if text_sha in producer.values() else ("stale" if producer else "cold")
            label = f"run:{'on' if op['cache'] else 'off'}:{state}:{op['via']}"
            stats[f"state:{'on' if op['cache'] else 'off'}:{state}"] = \
                stats.get(f"state:{'on' if op['cache'] else 'off'}:{state}", 0) + 1
            if op["cache"] and state == "warm":
                warm_seen = True

            # ---- oracle 1: equals the reference
            if actor.exc is not None or res is None or res.exc is not None:
                exc = actor.exc or (res.exc if res is not None else ("?", "", ""))
                violations.append({"property": "C23", "class": f"exception:{exc[0]}@{exc[2]}",
                                   "detail": f"op {op} raised {exc[0]}: {exc[1][:300]} at {exc[2]}"})
                history_sig.append(label + ":exc")
                break
            res.files = repo.hash_tree(out_dir)
            why = None
            if res.rc != ref.rc:
                why = ("rc", f"rc {res.rc} != {ref.rc}; stderr {res.err[:300]!r}")
            elif res.err != ref.err:
                why = ("stderr", f"stderr {res.err[:300]!r} != reference {ref.err[:300]!r}")
            elif res.out != ref.out:
                why = ("stdout", f"stdout {res.out[-200:]!r} != reference {ref.out[-200:]!r}")
            elif res.files != ref.files:
                diff = sorted(k for k in set(res.files) | set(ref.files or {})
                              if res.files.get(k) != (ref.files or {}).get(k))
                why = ("files", f"files differ from the uncached reference: {diff[:5]}")
            if why is not None:
                violations.append({
                    "property": "C23",
                    "class": f"differs-from-uncached:{why[0]}:{'cache-on' if op['cache'] else 'cache-off'}",
                    "detail": f"op {op} with cache state {state}: {why[1]}"})
            breach = repo.c03_monitor(res)
            if breach is not None:
                violations.append({"property": "C23", "class": "c03:" + breach.split(":")[0][:40],
                                   "detail": f"op {op}: {breach}"})

            # ---- oracle 2: audit
            out_rel = os.path.relpath(out_dir, sb.root)
            tmp_opens = []
            tmp_mut = []
            stray_mut = []
            read_tmp_files = []
            compiled_own = False
            for ev in actor.audit:
                if ev[0] == "compile":
                    if ev[1] == text_sha:
                        compiled_own = True
                    continue
                event, role, rel, extra = ev
                is_mut = event in MUTATING or (event == "open" and extra == "w")
                if role == "tmp":
                    if event == "open":
                        tmp_opens.append(rel)
                        if extra == "r":
                            read_tmp_files.append(os.path.relpath(rel, "tmp"))
                    if is_mut:
                        tmp_mut.append(f"{event} {rel}")
                elif role == "outside":
                    stray_mut.append(f"{event} {rel}")
                elif is_mut:
                    if not (rel == out_rel or rel.startswith(out_rel + os.sep)):
                        stray_mut.append(f"{event} {rel}")
            if not op["cache"] and (tmp_opens or tmp_mut):
                violations.append({
                    "property": "C23", "class": "cache-touched-without-flag",
                    "detail": f"op {op}: without --cache_model the run opened/changed "
                              f"{(tmp_opens + tmp_mut)[:3]} under the temp directory"})
            if stray_mut:
                violations.append({
                    "property": "C23", "class": "write-outside-output-dir",
                    "detail": f"op {op}: mutating file-system events outside the output directory"
                              f"{' and the cache' if op['cache'] else ''}: {stray_mut[:3]}"})

            # ---- oracle 3: reuse only for identical text
            reused = [f for f in read_tmp_files if os.path.isfile(sb.path("tmp", f)) or f in producer]
            if reused and not compiled_own:
                stats["cache_hits_observed"] = stats.get("cache_hits_observed", 0) + 1
                for f in reused:
                    prod = producer.get(f)
                    if prod is not None and prod != text_sha:
                        violations.append({
                            "property": "C23", "class": "entry-reused-for-different-text",
                            "detail": f"op {op}: read cache file {f} produced for another model "
                                      f"text and did not parse its own text"})
                        break
            elif op["cache"] and state == "warm":
                stats["warm_but_reparsed"] = stats.get("warm_but_reparsed", 0) + 1
            # who produced what
            new_snap = _snapshot_tmp(sb.path("tmp"))
            for f, meta in new_snap.items():
                if snap.get(f) != meta:
                    producer[f] = text_sha
            for f in list(producer):
                if f not in new_snap:
                    del producer[f]
            snap = new_snap
            outcome = "ok" if res.rc == 0 else "rep"
            history_sig.append(label + ":" + outcome)
            h.update(repr((label, res.rc, res.err, sorted(res.files.items()),
                           sorted(set(e[0] for e in actor.audit)))).encode())
            if violations:
                break

        if plan.get("ir_check") and not violations:
            problems = ir_roundtrip_problems(texts[0])
            stats["ir_roundtrips"] = stats.get("ir_roundtrips", 0) + (0 if problems is None else 1)
            for pr in problems or []:
                violations.append({"property": "C23", "class": "unpickled-table:" + pr[0],
                                   "detail": pr[1]})
        if warm_seen:
            out["distinct"] = [hashlib.sha256("|".join(history_sig).encode()).hexdigest()[:16]]
        out["digest"] = h.hexdigest()
        if plan["run"] % 300 == 0 or violations:
            out["sample"] = {"run": plan["run"], "model": plan["model"],
                             "variants": plan["variants"], "ops": plan["ops"],
                             "history": history_sig}
    finally:
        sb.cleanup()
    return out


# --------------------------------------------------------------------------------------
# direct check of the pickled symbol table
# --------------------------------------------------------------------------------------


def _children(obj: Any) -> List[Tuple[str, Any]]:
    if isinstance(obj, (str, bytes, int, float, bool, type(None))):
        return []
    if isinstance(obj, (list, tuple)):
        return [(str(i), v) for i, v in enumerate(obj)]
    if isinstance(obj, dict):
        try:
            items = sorted(obj.items(), key=lambda kv: repr(kv[0]))
        except Exception:
            items = list(obj.items())
        return [(repr(k), v) for k, v in items]
    if isinstance(obj, (set, frozenset)):
        return []
    d = getattr(obj, "__dict__", None)
    if d is None:
        return []
    return [(k, d[k]) for k in sorted(d)]


def ir_roundtrip_problems(text: str) -> Optional[List[Tuple[str, str]]]:
    """Compare a freshly built symbol table with its pickle round trip."""
    from aas_core_codegen import intermediate, parse, run as cg_run
    import enum

    atok, exc = parse.source_to_atok(source=text)
    if exc is not None or atok is None:
        return None
    if parse.check_expected_imports(atok=atok):
        return None
    parsed, error = parse.atok_to_symbol_table(atok=atok)
    if error is not None or parsed is None:
        return None
    st, error = intermediate.translate(parsed_symbol_table=parsed, atok=atok)
    if error is not None or st is None:
        return None
    problems: List[Tuple[str, str]] = []
    try:
        data = pickle.dumps(cg_run._Cached(symbol_table=st, atok=atok))
        st2 = pickle.loads(data).symbol_table
    except Exception as error2:  # noqa
        return [("pickle-raises", f"pickling the symbol table raised {type(error2).__name__}: {error2}")]
    try:
        d1, d2 = intermediate.dump(st), intermediate.dump(st2)
        if d1 != d2:
            problems.append(("dump", "intermediate.dump differs after a pickle round trip"))
    except Exception as error2:  # noqa
        problems.append(("dump-raises", f"dump of the unpickled table raised {type(error2).__name__}: {error2}"))
        return problems

    # parallel walk: same shape, same aliasing
    num1: Dict[int, int] = {}
    num2: Dict[int, int] = {}
    pairs: List[Tuple[Any, Any]] = []
    stack = [("symbol_table", st, st2)]
    skipped = 0
    while stack and len(problems) < 5:
        path, a, b = stack.pop()
        if type(a) is not type(b):
            problems.append(("shape", f"{path}: {type(a).__name__} became {type(b).__name__}"))
            continue
        if isinstance(a, (str, bytes, int, float, bool, type(None))):
            if a != b and not (isinstance(a, float) and a != a and b != b):
                problems.append(("value", f"{path}: {a!r} became {b!r}"))
            continue
        if isinstance(a, enum.Enum):
            if a is not b:
                problems.append(("value", f"{path}: {a!r} became {b!r}"))
            continue
        mod = type(a).__module__ or ""
        if mod != "builtins" and not mod.startswith("aas_core_codegen"):
            # third-party objects (ast, asttokens, docutils nodes) are compared through the
            # dump text only: nobody queries their internals
            skipped += 1
            continue
        ia, ib = id(a), id(b)
        if ia in num1 or ib in num2:
            if num1.get(ia) != num2.get(ib):
                problems.append(("aliasing", f"{path}: sharing structure changed by pickling"))
            continue
        num1[ia] = num2[ib] = len(num1)
        pairs.append((a, b))
        ca, cb = _children(a), _children(b)
        id_set_keys = {k for k, _ in ca if k.endswith("_id_set")} | \
                      {k for k, _ in cb if k.endswith("_id_set")}
        ka = [k for k, _ in ca if k not in id_set_keys]
        kb = [k for k, _ in cb if k not in id_set_keys]
        if ka != kb:
            problems.append(("shape", f"{path}: attributes/keys {sorted(set(ka) ^ set(kb))[:5]} differ"))
            continue
        for (k, va), (_, vb) in zip([c for c in ca if c[0] not in id_set_keys],
                                    [c for c in cb if c[0] not in id_set_keys]):
            stack.append((f"{path}.{k}", va, vb))
        # id-sets: self-calibrated against the original
        for k in sorted(id_set_keys):
            sa = getattr(a, k, None)
            sb_ = getattr(b, k, None)
            if not isinstance(sa, (set, frozenset)):
                continue
            if not isinstance(sb_, (set, frozenset)):
                problems.append(("id-set", f"{path}.{k} is missing or not a set after unpickling"))
                continue
            stem = k.lstrip("_")[: -len("_id_set")]
            seq_a = seq_b = None
            for cand in (stem + "s", stem[:-1] + "ies" if stem.endswith("y") else None,
                         "_" + stem + "s"):
                if cand and hasattr(a, cand):
                    try:
                        seq_a, seq_b = getattr(a, cand), getattr(b, cand)
                        break
                    except Exception:
                        seq_a = seq_b = None
            if seq_a is None:
                continue
            try:
                if frozenset(id(x) for x in seq_a) == sa:
                    if frozenset(id(x) for x in seq_b) != sb_:
                        problems.append(("id-set", f"{path}.{k} does not hold the ids of .{cand} after unpickling"))
            except TypeError:
                continue
    # queries
    try:
        if hasattr(st, "our_types"):
            names = [t.name for t in st.our_types]
            names2 = [t.name for t in st2.our_types]
            if names != names2:
                problems.append(("query", "our_types order/names differ"))
            else:
                for t1, t2 in zip(st.our_types, st2.our_types):
                    f1 = st.find_our_type(t1.name)
                    f2 = st2.find_our_type(t2.name)
                    if (f1 is t1) != (f2 is t2):
                        problems.append(("query", f"find_our_type({t1.name!r}) answers differently"))
                classes1 = [t for t in st.our_types if hasattr(t, "is_subclass_of")]
                classes2 = [t for t in st2.our_types if hasattr(t, "is_subclass_of")]
                for a1, a2 in zip(classes1, classes2):
                    for b1, b2 in zip(classes1, classes2):
                        try:
                            q1 = a1.is_subclass_of(b1)
                        except Exception:
                            continue
                        try:
                            q2 = a2.is_subclass_of(b2)
                        except Exception as error2:  # noqa
                            problems.append(("query", f"{a1.name}.is_subclass_of({b1.name}) raises after unpickling: {error2}"))
                            continue
                        if q1 != q2:
                            problems.append(("query", f"{a1.name}.is_subclass_of({b1.name}) = {q1} became {q2}"))
                    if len(problems) > 5:
                        break
    except Exception as error2:  # harness-level surprise: do not turn into a verdict
        raise kernel.HarnessError(f"ir query check failed: {type(error2).__name__}: {error2}")
    return problems[:5]


# --------------------------------------------------------------------------------------


def reductions(plan: dict) -> Iterator[dict]:
    import copy

    ops = plan["ops"]
    if plan.get("ir_check"):
        p = copy.deepcopy(plan)
        p["ir_check"] = False
        yield p
    n = len(ops)
    size = max(1, n // 2)
    while size >= 1:
        for start in range(0, n, size):
            p = copy.deepcopy(plan)
            del p["ops"][start:start + size]
            if any(o["op"] == "run" for o in p["ops"]):
                yield p
        if size == 1:
            break
        size //= 2
    for i, op in enumerate(ops):
        if op["op"] == "run" and op["via"] == "main":
            p = copy.deepcopy(plan)
            p["ops"][i]["via"] = "execute"
            yield p
    for i, v in enumerate(plan["variants"]):
        if len(v) > 1:
            for j in range(len(v)):
                p = copy.deepcopy(plan)
                del p["variants"][i][j]
                yield p
    if len(plan["paths"]) > 1:
        p = copy.deepcopy(plan)
        for op in p["ops"]:
            if "path" in op:
                op["path"] = 0
        p["paths"] = p["paths"][:1]
        p["init"] = p["init"][:1]
        yield p
