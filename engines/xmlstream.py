"""C10 (XML stream slice) -- the generated Python SDK reads XML from a *stream*
(DESIGN.md section 3, C10).

``from_stream`` hands the caller's stream to ``iterparse``; whether ``text``/``tail`` of an
element is already there when the SDK looks at an event depends on where the read boundaries
fall -- a schedule.  Documents (valid, mistyped, truncated/corrupted) are delivered through a
``TextIO`` whose ``read(n)`` returns seeded short reads.  JSON runs as fault-free baseline.
"""
from __future__ import annotations

import hashlib
import io
import json
import random
import re
from typing import Any, Dict, Iterator, List, Optional, Tuple

from dsim import kernel, repo, sdk as S, workload

PROPERTY_IDS = ["C10"]
LEVEL = "exploration"

tiers = {
    "quick": {"runs": 3000, "chunk": 60, "wall_cap_s": 2400, "determinism_samples": 8,
              "max_minimise": 4, "minimise_budget_s": 40, "chunkings": 8},
    "thorough": {"runs": 40000, "chunk": 200, "wall_cap_s": 7200, "determinism_samples": 30,
                 "max_minimise": 6, "minimise_budget_s": 120, "chunkings": 24},
}

EDIT_KINDS = ["rename_element", "drop_element", "duplicate_element", "wrong_text",
              "extra_attribute", "wrong_namespace", "comment", "cdata", "pi", "mixed_content",
              "pretty_print", "self_close_empty", "swap_siblings", "unknown_child"]
BROKEN_KINDS = ["truncate", "delete_char", "insert_lt", "bad_entity"]

_SDK_MODELS: Optional[List[str]] = None


BIG = "common/aas_core_meta.v3"


def prepare(tier: str) -> None:
    """Generate and import every SDK once, before the workers are forked."""
    global _SDK_MODELS
    table = workload.usable_table()
    _SDK_MODELS = sorted(m for (m, t), st in table.items() if t == "python" and st == "ok")
    for model in _SDK_MODELS + [BIG]:
        S.load_sdk(model, workload.materialise({"model": model}))


def describe() -> dict:
    return {
        "rule": (
            "one evaluation = one instance (depth <= 6, lists <= 3, strings over XML characters "
            "incl. markup characters, blanks, ]]>, astral, U+0085/U+2028, optionally CR; bytes "
            "incl. optionally empty; floats incl. inf/nan/-0.0; enum literals) of a generated "
            "and imported Python SDK of a corpus model, written with xmlization.write and read "
            "back whole (from_str) and through from_stream under 8 (quick) / 24 (thorough) "
            "seeded chunkings and (every 2nd run) through from_file with short raw reads of 1..64 bytes; plus one labelled edit (14 kinds of well-formed mistyped "
            "documents) and one corruption (4 kinds, not well-formed), each delivered whole "
            "and in chunks; plus JSON round trip and one mutated jsonable. distinct = distinct "
            "(model, root class, document shape with text erased) triples delivered in >= 2 chunkings."
        ),
        "real": ["python target of aas_core_codegen generating the SDK from the working tree",
                 "the generated types/xmlization/jsonization modules, imported in-process",
                 "xml.etree.ElementTree.iterparse + expat"],
        "stub": ["the caller's stream: a TextIO whose read(n) returns seeded short reads",
                 "for from_file: the kernel's raw-file seam (short raw reads under the real TextIOWrapper/BufferedReader)"],
        "assumptions": [
            "input that is not well-formed XML is no 'XML document': xml.etree.ElementTree.ParseError is accepted next to DeserializationException there",
            "only corpus models for which the python target generates an importable SDK are used (23 small ones with the single qualified_module_name snippet + aas_core_meta.v3 with its fixture snippets)",
        ],
    }


# --------------------------------------------------------------------------------------


def gen_plan(seed: int, run: int, tier: str) -> dict:
    rng = random.Random(f"{seed}:C10:{run}")
    models = _SDK_MODELS or []
    model = models[rng.randrange(len(models))]
    edits: List[list] = []
    if rng.random() < (0.1 if tier == "quick" else 0.25):
        model = BIG
    elif rng.random() < 0.35:
        # meta-model variant: exotic (astral, quoted, blank-padded, markup) enumeration values
        edits = [["enum_values", rng.randrange(6)]]
    chunkings = []
    for _ in range(int(tiers[tier]["chunkings"])):
        chunkings.append({"mode": rng.choice(["tiny", "tiny", "after_gt", "random", "one_cut",
                                              "before_lt", "words"]),
                          "seed": rng.randrange(1 << 30)})
    return {"engine": "xmlstream", "seed": seed, "run": run, "model": model, "model_edits": edits,
            "instance_seed": rng.randrange(1 << 30),
            "allow_cr": rng.random() < 0.25, "allow_empty_bytes": rng.random() < 0.3,
            "edit": {"kind": EDIT_KINDS[rng.randrange(len(EDIT_KINDS))], "seed": rng.randrange(1 << 30)},
            "broken": {"kind": BROKEN_KINDS[rng.randrange(len(BROKEN_KINDS))], "seed": rng.randrange(1 << 30)},
            "json_mut_seed": rng.randrange(1 << 30),
            "chunkings": chunkings}


class ChunkedText(io.TextIOBase):
    """A text stream that delivers ``text`` in the given chunk sizes (then the rest)."""

    def __init__(self, text: str, sizes: List[int]) -> None:
        super().__init__()
        self._text = text
        self._pos = 0
        self._sizes = list(sizes)
        self.reads = 0

    def readable(self) -> bool:
        return True

    def read(self, n: Optional[int] = -1) -> str:  # type: ignore[override]
        self.reads += 1
        if self._pos >= len(self._text):
            return ""
        want = len(self._text) - self._pos if (n is None or n < 0) else n
        if self._sizes:
            want = max(1, min(want, self._sizes.pop(0)))
        chunk = self._text[self._pos:self._pos + want]
        self._pos += len(chunk)
        return chunk


def chunk_sizes(text: str, spec: dict) -> List[int]:
    rng = random.Random(spec["seed"])
    n = len(text)
    mode = spec["mode"]
    cuts: List[int] = []
    if mode == "tiny":
        pos = 0
        while pos < n:
            pos += rng.choice([1, 1, 2, 3])
            cuts.append(pos)
    elif mode == "random":
        pos = 0
        while pos < n:
            pos += rng.randrange(1, 65)
            cuts.append(pos)
    elif mode == "after_gt":
        p = rng.choice([0.3, 0.7, 1.0])
        cuts = [m.end() for m in re.finditer(">", text) if rng.random() < p]
    elif mode == "before_lt":
        p = rng.choice([0.3, 0.7, 1.0])
        cuts = [m.start() for m in re.finditer("<", text) if m.start() > 0 and rng.random() < p]
    elif mode == "words":
        cuts = [m.start() + rng.choice([0, 1]) for m in re.finditer(r"[^<>]{2,}", text)
                if rng.random() < 0.8]
    elif mode == "one_cut":
        cuts = [rng.randrange(1, max(2, n))]
    cuts = sorted(set(c for c in cuts if 0 < c < n))
    sizes = []
    prev = 0
    for c in cuts:
        sizes.append(c - prev)
        prev = c
    return sizes


# --------------------------------------------------------------------------------------
# labelled edits on the SDK's own (regular) output
# --------------------------------------------------------------------------------------

_TOKEN = re.compile(r"(<[^>]+>)")


def _tokens(text: str) -> List[str]:
    return [t for t in _TOKEN.split(text) if t != ""]


def _is_start(t: str) -> bool:
    return t.startswith("<") and not t.startswith("</") and not t.endswith("/>") \
        and not t.startswith("<?") and not t.startswith("<!")


def _is_end(t: str) -> bool:
    return t.startswith("</")


def _name(t: str) -> str:
    return re.sub(r"[</>]", "", t).split()[0] if t.startswith("<") else ""


def _match_end(toks: List[str], i: int) -> int:
    depth = 0
    for j in range(i, len(toks)):
        if _is_start(toks[j]):
            depth += 1
        elif _is_end(toks[j]):
            depth -= 1
            if depth == 0:
                return j
    return len(toks) - 1


def apply_edit(text: str, edit: dict) -> Optional[str]:
    try:
        return _apply_edit(text, edit)
    except (IndexError, ValueError):
        return None  # the edit does not apply to this document shape


def _apply_edit(text: str, edit: dict) -> Optional[str]:
    rng = random.Random(edit["seed"])
    kind = edit["kind"]
    toks = _tokens(text)
    starts = [i for i, t in enumerate(toks) if _is_start(t)]
    inner_starts = starts[1:]
    if kind == "rename_element":
        if not inner_starts:
            return None
        i = rng.choice(inner_starts)
        j = _match_end(toks, i)
        toks[i] = "<unknownVerifElement>"
        toks[j] = "</unknownVerifElement>"
    elif kind == "drop_element":
        if not inner_starts:
            return None
        i = rng.choice(inner_starts)
        j = _match_end(toks, i)
        del toks[i:j + 1]
    elif kind == "duplicate_element":
        if not inner_starts:
            return None
        i = rng.choice(inner_starts)
        j = _match_end(toks, i)
        toks[j + 1:j + 1] = toks[i:j + 1]
    elif kind == "wrong_text":
        leaves = [i for i in starts if i + 2 < len(toks) and not toks[i + 1].startswith("<")
                  and _is_end(toks[i + 2])]
        if not leaves:
            return None
        i = rng.choice(leaves)
        toks[i + 1] = rng.choice(["not-a-value", "1e", "TRUE", "0x10", "1.5.2", " 1 ", "===", "NaNN"])
    elif kind == "extra_attribute":
        i = rng.choice(starts)
        toks[i] = toks[i][:-1] + ' verifAttr="x">'
    elif kind == "wrong_namespace":
        new, n = re.subn(r'xmlns="[^"]*"', 'xmlns="https://verif.example/other"', toks[starts[0]])
        if not n:
            return None
        toks[starts[0]] = new
    elif kind == "comment":
        i = rng.randrange(1, len(toks))
        toks.insert(i, "<!-- verif comment -->")
    elif kind == "cdata":
        leaves = [i for i in starts if i + 2 < len(toks) and not toks[i + 1].startswith("<")
                  and _is_end(toks[i + 2])]
        if not leaves:
            return None
        i = rng.choice(leaves)
        toks[i + 1] = "<![CDATA[" + toks[i + 1].replace("]]>", "") + "]]>"
    elif kind == "pi":
        i = rng.randrange(1, len(toks))
        toks.insert(i, "<?verif pi?>")
    elif kind == "mixed_content":
        spots = [i for i in range(1, len(toks)) if toks[i].startswith("<")
                 and toks[i - 1].startswith("<")]
        if not spots:
            return None
        i = rng.choice(spots)
        toks.insert(i, rng.choice(["junk", " junk ", "x", "0"]))
    elif kind == "pretty_print":
        out = []
        for k, t in enumerate(toks):
            out.append(t)
            if t.startswith("<") and k + 1 < len(toks) and toks[k + 1].startswith("<") \
                    and rng.random() < 0.7:
                out.append(rng.choice(["\n", "\n  ", " ", "\t", "\n\n    "]))
        toks = out
    elif kind == "self_close_empty":
        spots = [i for i in starts if i + 1 < len(toks) and _is_end(toks[i + 1])]
        if not spots:
            return None
        i = rng.choice(spots)
        toks[i:i + 2] = [toks[i][:-1] + "/>"]
    elif kind == "swap_siblings":
        if len(inner_starts) < 2:
            return None
        i = rng.choice(inner_starts)
        j = _match_end(toks, i)
        if j + 1 < len(toks) and _is_start(toks[j + 1]):
            k = _match_end(toks, j + 1)
            toks[i:k + 1] = toks[j + 1:k + 1] + toks[i:j + 1]
        else:
            return None
    elif kind == "unknown_child":
        ends = [i for i, t in enumerate(toks) if _is_end(t)]
        i = rng.choice(ends)
        toks.insert(i, "<verifExtra>1</verifExtra>")
    else:
        raise KeyError(kind)
    return "".join(toks)


def apply_broken(text: str, spec: dict) -> str:
    rng = random.Random(spec["seed"])
    kind = spec["kind"]
    n = len(text)
    if kind == "truncate":
        return text[: rng.randrange(0, n)]
    if kind == "delete_char":
        idx = [m.start() for m in re.finditer(r"[<>/]", text)]
        i = rng.choice(idx)
        return text[:i] + text[i + 1:]
    if kind == "insert_lt":
        i = rng.randrange(0, n)
        return text[:i] + "<" + text[i:]
    if kind == "bad_entity":
        i = rng.randrange(0, n)
        return text[:i] + "&nosuch;" + text[i:]
    raise ValueError(kind)


# --------------------------------------------------------------------------------------


def _read(sdkm: S.Sdk, doc: str, sizes: Optional[List[int]]) -> Tuple[str, Any]:
    """('ok', instance) | ('deser', msg) | ('parse', msg) | ('other', (type, msg))"""
    import xml.etree.ElementTree as ET

    try:
        if sizes is None:
            return "ok", sdkm.xmlization.from_str(doc)
        return "ok", sdkm.xmlization.from_stream(ChunkedText(doc, sizes))
    except sdkm.xmlization.DeserializationException as error:
        return "deser", str(error)[:200]
    except ET.ParseError as error:
        return "parse", str(error)[:200]
    except Exception as error:  # noqa
        return "other", (type(error).__name__, str(error)[:200])


def execute(plan: dict) -> dict:
    repo.activate()
    stats: Dict[str, int] = {}
    violations: List[dict] = []
    out: Dict[str, Any] = {"plan": plan, "violations": violations, "stats": stats,
                           "distinct": [], "inconclusive": None, "digest": None, "sample": None}
    text = workload.materialise({"model": plan["model"], "edits": plan.get("model_edits", [])})
    if plan.get("model_edits") and text == workload.materialise({"model": plan["model"]}):
        plan = dict(plan, model_edits=[])
        out["plan"] = plan
    if plan.get("model_edits"):
        stats["probe:model_with_exotic_enum_values"] = 1
    sdkm = S.load_sdk(plan["model"], text)
    if sdkm is None:
        out["inconclusive"] = "sdk-not-importable"
        return out
    gen = S.InstanceGen(sdkm, random.Random(plan["instance_seed"]), plan.get("allow_cr", False),
                        plan.get("allow_empty_bytes", False))
    try:
        inst = gen.root()
    except S.GenGiveUp as error:
        out["inconclusive"] = "instance-not-generated"
        return out
    except Exception as error:  # noqa - constructing through the SDK must not fail
        raise kernel.HarnessError(f"instance generation failed: {type(error).__name__}: {error}")
    h = hashlib.sha256()
    tags = sorted(gen.tags)
    stats["instances"] = 1
    for t in tags:
        stats["probe:instance_with_" + t] = 1

    def v(cls: str, detail: str) -> None:
        violations.append({"property": "C10", "class": cls,
                           "detail": f"model {plan['model']}, {type(inst).__name__}: {detail}"})

    # ---- write
    try:
        doc = sdkm.xmlization.to_str(inst)
    except Exception as error:  # noqa
        v(f"xml-write-raises:{type(error).__name__}", f"to_str raised {error!s:.200}")
        return out
    h.update(doc.encode("utf-8", "surrogatepass"))

    # ---- valid document, whole.  Attribution of the two known pure-input defects (CR is not
    # escaped by the writer; an empty byte array is written as an element without text): a
    # failure counts as such only if the same instance with exactly those values replaced
    # round-trips -- otherwise it is reported under the generic class.
    kind, back = _read(sdkm, doc, None)
    whole_ok = False
    cur = inst
    if kind != "ok":
        cls = "xml-roundtrip-rejected"
        if "empty-bytes" in gen.tags:
            alt = S.replace_tagged(inst, cr=False, empty_bytes=True)
            k2, b2 = _read(sdkm, sdkm.xmlization.to_str(alt), None)
            if k2 == "ok":
                cls = "xml-roundtrip-rejected:only-empty-bytes"
                cur, back = alt, b2
        v(cls, f"the SDK rejects its own output ({kind}: {back if cls == 'xml-roundtrip-rejected' else 'element with no text'}); document {doc[:300]!r}")
        if cls == "xml-roundtrip-rejected":
            cur = None
    if cur is not None:
        diff = S.equal(sdkm, cur, back)
        if diff is not None:
            cls = "xml-roundtrip-differs"
            if "cr" in gen.tags:
                alt = S.replace_tagged(cur, cr=True, empty_bytes=False)
                k2, b2 = _read(sdkm, sdkm.xmlization.to_str(alt), None)
                if k2 == "ok" and S.equal(sdkm, alt, b2) is None:
                    cls = "xml-roundtrip-differs:only-cr"
            v(cls, f"read-back differs at {diff}")
        elif kind == "ok":
            whole_ok = True

    # ---- valid document, in chunks
    shape = hashlib.sha256((plan["model"] + type(inst).__name__ +
                            re.sub(r">[^<]+<", "><", doc)).encode()).hexdigest()[:16]
    n_chunkings = 0
    for spec in plan["chunkings"]:
        sizes = chunk_sizes(doc, spec)
        if not sizes:
            continue
        n_chunkings += 1
        stats["chunked_deliveries"] = stats.get("chunked_deliveries", 0) + 1
        stats["seam_steps"] = stats.get("seam_steps", 0) + len(sizes) + 1
        stats["fault:short_read"] = stats.get("fault:short_read", 0) + len(sizes)
        k2, b2 = _read(sdkm, doc, sizes)
        if kind == "ok":
            if k2 != "ok":
                v("xml-stream-rejects-valid-document",
                  f"from_str accepts, from_stream with chunking {spec} raises {k2}: {b2}; document {doc[:200]!r}")
                break
            d2 = S.equal(sdkm, back, b2)
            if d2 is not None:
                v("xml-stream-differs-from-whole",
                  f"from_stream with chunking {spec} differs from from_str at {d2}")
                break
    if n_chunkings >= 2:
        out["distinct"] = [shape]

    # ---- valid document from a *file* whose raw reads are short (kernel seam): from_file
    # decodes UTF-8 itself, so multi-byte sequences get split across raw reads
    if kind == "ok" and plan["run"] % 2 == 0 and not violations:
        frng = random.Random(plan["instance_seed"] ^ 0x5F1E)
        sb = kernel.Sandbox()
        try:
            path = sb.path("out", "instance.xml")
            with kernel.real_open(path, "w", encoding="utf-8", newline="") as f:
                f.write(doc)
            sim = kernel.Sim(sb, seed_text=f"{plan['seed']}:C10:{plan['run']}:file",
                             sched_roles=(), fault_roles=("out",), faults=[], schedule=[],
                             bufsize=frng.choice([1, 2, 3, 5, 16, 100, 8192]),
                             max_io=frng.choice([1, 2, 3, 7, 64, 1 << 20]), step_cap=400000)
            box: Dict[str, Any] = {}

            def fn() -> None:
                import pathlib
                import xml.etree.ElementTree as ET

                try:
                    box["r"] = ("ok", sdkm.xmlization.from_file(pathlib.Path(path)))
                except sdkm.xmlization.DeserializationException as error:
                    box["r"] = ("deser", str(error)[:200])
                except ET.ParseError as error:
                    box["r"] = ("parse", str(error)[:200])

            actor = sim.spawn("reader", fn)
            sim.run()
            stats["file_deliveries"] = 1
            stats["seam_steps"] = stats.get("seam_steps", 0) + sim.seq
            stats["fault:short_raw_read"] = stats.get("fault:short_raw_read", 0) + sum(
                1 for e in sim.trace if e[2] == "read")
            if not sim.capped:
                if actor.exc is not None:
                    v(f"xml-file-wrong-exception:{actor.exc[0]}",
                      f"from_file on a valid document raised {actor.exc[0]}: {actor.exc[1][:200]}")
                else:
                    k4, b4 = box.get("r", ("other", None))
                    if k4 != "ok":
                        v("xml-file-rejects-valid-document",
                          f"from_str accepts, from_file with short raw reads raises {k4}: {b4}")
                    elif S.equal(sdkm, back, b4) is not None:
                        v("xml-file-differs-from-whole",
                          f"from_file with short raw reads differs from from_str at {S.equal(sdkm, back, b4)}")
        finally:
            sb.cleanup()

    # ---- mistyped (well-formed) document
    edited = apply_edit(doc, plan["edit"]) if whole_ok else None
    ekind = plan["edit"]["kind"]
    if edited is not None and edited != doc:
        import xml.etree.ElementTree as ET

        try:
            ET.fromstring(edited)
            well_formed = True
        except ET.ParseError:
            well_formed = False
        if well_formed:
            stats["edit:" + ekind] = 1
            k0, b0 = _read(sdkm, edited, None)
            h.update(repr((ekind, k0)).encode())
            if k0 in ("other", "parse"):
                v(f"wrong-exception:{b0[0] if k0 == 'other' else 'ParseError'}:{ekind}",
                  f"mistyped document ({ekind}) read whole raises {b0}; document {edited[:300]!r}")
            else:
                stats[f"verdict:{ekind}:{k0}"] = 1
                for spec in plan["chunkings"]:
                    sizes = chunk_sizes(edited, spec)
                    if not sizes:
                        continue
                    stats["chunked_deliveries"] = stats.get("chunked_deliveries", 0) + 1
                    stats["seam_steps"] = stats.get("seam_steps", 0) + len(sizes) + 1
                    k2, b2 = _read(sdkm, edited, sizes)
                    if k2 in ("other", "parse"):
                        v(f"wrong-exception:{b2[0] if k2 == 'other' else 'ParseError'}:{ekind}",
                          f"mistyped document ({ekind}) in chunks {spec} raises {b2}")
                        break
                    if k2 != k0:
                        v(f"verdict-depends-on-chunking:{ekind}",
                          f"document with edit {ekind} is {'accepted' if k0 == 'ok' else 'rejected'} whole "
                          f"but {'accepted' if k2 == 'ok' else 'rejected'} with chunking {spec}; "
                          f"document {edited[:300]!r}")
                        break
                    if k0 == "ok" and S.equal(sdkm, b0, b2) is not None:
                        v(f"result-depends-on-chunking:{ekind}",
                          f"accepted both ways but the instances differ: {S.equal(sdkm, b0, b2)}")
                        break

    # ---- not well-formed
    broken = apply_broken(doc, plan["broken"])
    if broken != doc:
        stats["broken:" + plan["broken"]["kind"]] = 1
        for sizes in [None] + [chunk_sizes(broken, s) for s in plan["chunkings"][:3]]:
            k3, b3 = _read(sdkm, broken, sizes)
            stats[f"broken_outcome:{k3}"] = stats.get(f"broken_outcome:{k3}", 0) + 1
            if k3 == "other":
                v(f"wrong-exception:{b3[0]}:{plan['broken']['kind']}",
                  f"corrupted document raises {b3}; document {broken[:300]!r}")
                break

    # ---- JSON baseline (fault-free, plain input sampling)
    _json_part(sdkm, inst, plan, stats, v)

    out["digest"] = h.hexdigest()
    if plan["run"] % 700 == 0 or violations:
        out["sample"] = {"run": plan["run"], "model": plan["model"], "class": type(inst).__name__,
                         "document": doc[:400], "edit": plan["edit"]["kind"],
                         "chunkings": [c["mode"] for c in plan["chunkings"]][:8],
                         "first_chunk_sizes": chunk_sizes(doc, plan["chunkings"][0])[:20]}
    return out


def _json_part(sdkm: S.Sdk, inst: Any, plan: dict, stats: Dict[str, int], v: Any) -> None:
    from aas_core_codegen.common import Identifier
    from aas_core_codegen.python import naming as N

    cls_name = None
    for t in sdkm.symbol_table.our_types:
        if str(N.class_name(t.name)) == type(inst).__name__:
            cls_name = t.name
            break
    if cls_name is None:
        return
    fn = getattr(sdkm.jsonization, str(N.function_name(Identifier(f"{cls_name}_from_jsonable"))), None)
    if fn is None:
        return
    try:
        jsonable = sdkm.jsonization.to_jsonable(inst)
        doc = json.loads(json.dumps(jsonable))
        back = fn(doc)
    except Exception as error:  # noqa
        v(f"json-roundtrip-raises:{type(error).__name__}", f"{error!s:.300}")
        return
    stats["json_roundtrips"] = 1
    diff = S.equal(sdkm, inst, back)
    if diff is not None:
        v("json-roundtrip-differs", f"JSON read-back differs at {diff}")
        return
    # one mutation
    rng = random.Random(plan["json_mut_seed"])
    paths: List[Tuple[Any, Any]] = []

    def walk(node: Any) -> None:
        if isinstance(node, dict):
            for k in node:
                paths.append((node, k))
                walk(node[k])
        elif isinstance(node, list):
            for i in range(len(node)):
                paths.append((node, i))
                walk(node[i])

    walk(doc)
    if not paths:
        mutated: Any = rng.choice([None, 1, "x", [], True])
    else:
        mutated = doc
        parent, key = paths[rng.randrange(len(paths))]
        choice = rng.choice(["wrong_type", "delete", "null", "extra", "nest"])
        if choice == "delete" and isinstance(parent, dict):
            del parent[key]
        elif choice == "extra" and isinstance(parent, dict):
            parent["verifUnknown"] = 1
        elif choice == "null":
            parent[key] = None
        elif choice == "nest":
            parent[key] = {"x": parent[key]}
        else:
            old = parent[key]
            parent[key] = rng.choice([x for x in (1, "s", [1], {"a": 1}, True, 1.5, "====", [[]])
                                      if type(x) is not type(old)])
    try:
        fn(mutated)
        stats["json_mutant_accepted"] = 1
    except sdkm.jsonization.DeserializationException:
        stats["json_mutant_rejected"] = 1
    except Exception as error:  # noqa
        v(f"json-wrong-exception:{type(error).__name__}",
          f"mutated jsonable raises {type(error).__name__}: {error!s:.200}; jsonable {json.dumps(mutated)[:300]}")


def reductions(plan: dict) -> Iterator[dict]:
    import copy

    ch = plan["chunkings"]
    if len(ch) > 1:
        for i in range(len(ch)):
            p = copy.deepcopy(plan)
            p["chunkings"] = [ch[i]]
            yield p
    if plan.get("model_edits"):
        p = copy.deepcopy(plan)
        p["model_edits"] = []
        yield p
    for flag in ("allow_cr", "allow_empty_bytes"):
        if plan.get(flag):
            p = copy.deepcopy(plan)
            p[flag] = False
            yield p
    for s in range(8):
        if plan["instance_seed"] != s:
            p = copy.deepcopy(plan)
            p["instance_seed"] = s
            yield p
