"""C24 -- the model cache under concurrent runs and crashes (DESIGN.md section 2, C24).

Several simulated processes run the real ``main.execute(cache_model=True)`` against one
shared temp directory; the scheduler interleaves every file-system step on that directory
and kills processes at seeded points (incl. torn writes).  Oracle: everybody who was not
killed / not handed an errno gets the reference result, and so do fresh runs afterwards.
"""
from __future__ import annotations

import errno
import os
import random
from typing import Any, Dict, Iterator, List, Optional, Tuple

from dsim import kernel, repo, workload

PROPERTY_IDS = ["C24"]
LEVEL = "exploration"

tiers = {
    "quick": {"runs": 4000, "chunk": 40, "wall_cap_s": 2400, "determinism_samples": 8,
              "max_minimise": 3, "minimise_budget_s": 45},
    "thorough": {"runs": 60000, "chunk": 100, "wall_cap_s": 7200, "determinism_samples": 40,
                 "max_minimise": 5, "minimise_budget_s": 120},
}

CONFIGS = ["clean", "crash", "crash", "crash", "errno"]
ERRNOS = [errno.ENOSPC, errno.EIO, errno.EACCES, errno.EDQUOT]
WRITE_SECTION = frozenset(["open_w", "write", "close_w", "rename", "unlink", "mkdir"])


def prepare(tier: str) -> None:
    workload.usable_table()


def describe() -> dict:
    return {
        "rule": (
            "one evaluation = one simulated run: 2-4 concurrent simulated processes (real "
            "main.execute with cache on) + optional pre-phase (warm entry / earlier crashed "
            "run) + recovery phase (2 fresh cached runs per model text); schedule, crash "
            "points, torn-write offsets, errnos, buffer sizes and workload all drawn from "
            "VERIF_SEED. distinct = distinct sequences of (actor, operation kind) over the "
            "shared cache directory that contain at least one context switch or fault "
            "(sequential fault-free runs are trivial and not counted)."
        ),
        "real": ["aas_core_codegen (all of it, from the working tree)", "pathlib", "pickle",
                 "io buffering", "tmpfs kernel file system (rename/unlink/O_EXCL semantics)"],
        "stub": ["process identity: threads as processes with virtual pid (unique, or in 20 % of the runs all equal = separate PID namespaces on a shared volume) and per-actor uuid4 stream",
                 "scheduler: seeded baton passing at every stat/open/read/write/close/mkdir/rename/unlink on the temp dir",
                 "crash: SimCrash unwind + suppression of every later file-system effect of that actor",
                 "raw I/O chunking (short reads/writes), injected errno values"],
        "assumptions": [
            "fault model is a process crash (kill -9): completed operations persist, a write may be torn at any byte; power loss / fsync semantics are not modelled",
            "simulated processes share one interpreter: module-level state of the code under test would be shared",
            "rename(2) on one file system is atomic (real tmpfs semantics are used)",
        ],
    }


# --------------------------------------------------------------------------------------
# plan generation
# --------------------------------------------------------------------------------------


def gen_plan(seed: int, run: int, tier: str) -> dict:
    rng = random.Random(f"{seed}:C24:{run}")
    config = CONFIGS[rng.randrange(len(CONFIGS))]
    ok_pairs = workload.pairs_with("ok")
    rep_pairs = workload.pairs_with("reported")
    targets_ok = repo.CHEAP_TARGETS if (tier == "quick" or rng.random() < 0.6) else repo.TARGETS
    n_actors = rng.choice([2, 2, 3, 3, 4])
    n_texts = rng.choice([1, 1, 2, 2, 3])
    texts: List[dict] = []
    ok_models = sorted({m for m, t in ok_pairs if t in targets_ok})
    rep_models = sorted({m for m, t in rep_pairs})
    base = rng.choice(ok_models)
    big = tier == "thorough" and run % 750 == 0
    if big:
        # the 180 KB meta-model: a 3.9 MB pickle gives long write windows (hundreds of raw writes)
        n_actors, n_texts = rng.choice([2, 3]), 1
        base = "common/aas_core_meta.v3"
    for i in range(n_texts):
        r = rng.random()
        if i == 0 or r < 0.45:
            spec = {"model": base, "edits": []}
            if i > 0:
                kind = rng.choice(["lead_blank", "lead_comment", "tail_comment", "version",
                                   "namespace", "tail_newline"])
                spec["edits"].append([kind, rng.randrange(1, 4)])
        elif r < 0.8:
            spec = {"model": rng.choice(ok_models), "edits": []}
        elif r < 0.9:
            spec = {"model": rng.choice(rep_models), "edits": []}
        else:
            spec = {"model": base, "edits": [[rng.choice(workload.BREAKING_EDITS)]]}
        texts.append(spec)
    actors = []
    same_name = rng.random() < 0.5
    for i in range(n_actors):
        ti = rng.randrange(n_texts) if i >= n_texts else i
        cands = [t for (m, t) in ok_pairs + rep_pairs
                 if m == texts[ti]["model"] and (t in targets_ok)]
        target = rng.choice(sorted(set(cands))) if cands else rng.choice(targets_ok)
        if big:
            target = rng.choice(["jsonschema", "xsd"])
        path = (f"d{i}/meta_model.py" if same_name else f"m{i}_{ti}.py")
        if rng.random() < 0.25 and i > 0:
            path = actors[rng.randrange(len(actors))]["path"] if \
                actors[0]["text"] == ti else path
        actors.append({"name": f"A{i}", "text": ti, "path": path, "target": target})
    # shared path => same text (a file has one content)
    by_path: Dict[str, int] = {}
    for a in actors:
        if a["path"] in by_path:
            a["text"] = by_path[a["path"]]
        else:
            by_path[a["path"]] = a["text"]
    pre = []
    r = rng.random()
    if r < 0.25:
        pre.append({"kind": "warm", "text": rng.randrange(n_texts)})
    elif r < 0.5 and config == "crash":
        pre.append({"kind": "crashrun", "text": rng.randrange(n_texts)})
    policy = rng.choice([
        {"kind": "random"}, {"kind": "random"},
        {"kind": "sticky", "p": rng.choice([0.05, 0.2, 0.5])},
        {"kind": "pct", "d": rng.choice([1, 2, 3]), "horizon": rng.choice([20, 60, 200])},
        {"kind": "rr"},
    ])
    if config == "clean" and rng.random() < 0.1:
        policy = {"kind": "sequential"}
    knobs = {
        "bufsize": rng.choice([64, 512, 4096, 8192, 8192, 65536]),
        "max_io": rng.choice([65536, 1 << 20]) if big else rng.choice([257, 1024, 4096, 1 << 16, 1 << 30]),
        "big": big,
        # runs in separate PID namespaces sharing the cache volume: os.getpid() collides
        "same_pid": rng.random() < 0.2,
        "p_w": rng.choice([0.02, 0.05, 0.15, 0.4]),
        "max_faults": rng.choice([1, 1, 2]) if config == "crash" else (1 if config == "errno" else 0),
        # simulated time that passes between the last fault and the "later runs" of the recovery
        # phase (own stream, so every other draw of the plan stays what it was): strays of a
        # crash are then minutes / weeks old when the next run meets them
        "recovery_gap": random.Random(f"{seed}:C24gap:{run}").choice([0, 0, 1200, 7200, 86400 * 40]),
    }
    return {"engine": "cache_conc", "seed": seed, "run": run, "config": config,
            "texts": texts, "actors": actors, "pre": pre, "policy": policy, "knobs": knobs,
            "schedule": None, "faults": None}


# --------------------------------------------------------------------------------------
# execution
# --------------------------------------------------------------------------------------


def _fault_policy(plan: dict):
    config = plan["config"]
    knobs = plan["knobs"]
    p_w = float(knobs.get("p_w", 0.05))
    max_faults = int(knobs.get("max_faults", 0))

    def policy(sim: kernel.Sim, actor: kernel.Actor, kind: str, role: str, rel: str,
               info: dict) -> Optional[dict]:
        if role != "tmp":
            return None
        phase = getattr(sim, "phase_kind", "main")
        if phase == "recovery" or phase == "warm":
            return None
        if phase == "crashrun":
            # force a crash somewhere in the write section of this single run
            if kind in WRITE_SECTION and not actor.crashed:
                if kind == "unlink" or sim.rng_fault.random() < 0.35:
                    if kind == "write" and sim.rng_fault.random() < 0.7:
                        return {"fault": "torn", "k": sim.rng_fault.randrange(max(1, info.get("n") or 1))}
                    return {"fault": "crash"}
            return None
        if config == "clean" or len(sim.faults_fired) - sim.pre_faults >= max_faults:
            return None
        p = p_w if kind in WRITE_SECTION else p_w / 10.0
        if sim.rng_fault.random() >= p:
            return None
        if config == "crash":
            if kind == "write" and sim.rng_fault.random() < 0.6:
                return {"fault": "torn", "k": sim.rng_fault.randrange(max(1, info.get("n") or 1))}
            return {"fault": "crash"}
        if config == "errno":
            e = ERRNOS[sim.rng_fault.randrange(len(ERRNOS))]
            if kind in ("stat", "close_r", "scandir", "listdir"):
                return None
            if kind == "read":
                return {"fault": "errno", "errno": errno.EIO}
            f = {"fault": "errno", "errno": e}
            if kind == "write" and sim.rng_fault.random() < 0.5:
                f["k"] = sim.rng_fault.randrange(max(1, info.get("n") or 1))
            return f
        return None

    return policy


def _cmp(res: repo.RunResult, ref: repo.RunResult) -> Optional[str]:
    if res.exc is not None:
        return None
    if res.rc != ref.rc:
        return f"rc {res.rc} != reference {ref.rc} (stderr {res.err[:300]!r})"
    if res.err != ref.err:
        return f"stderr differs: {res.err[:300]!r} != reference {ref.err[:300]!r}"
    if res.out != ref.out:
        return f"stdout differs: {res.out[-200:]!r} != reference {ref.out[-200:]!r}"
    if res.files != ref.files:
        a, b = res.files or {}, ref.files or {}
        diff = sorted(k for k in set(a) | set(b) if a.get(k) != b.get(k))
        return f"output files differ from the uncached reference: {diff[:5]}"
    return None


def execute(plan: dict) -> dict:
    repo.activate()
    texts = [workload.materialise(t) for t in plan["texts"]]
    stats: Dict[str, int] = {}
    violations: List[dict] = []
    out: Dict[str, Any] = {"plan": plan, "violations": violations, "stats": stats,
                           "distinct": [], "inconclusive": None, "digest": None,
                           "sample": None}

    # references first (outside the simulation)
    refs: Dict[Tuple[int, str], repo.RunResult] = {}
    needed = {(a["text"], a["target"]) for a in plan["actors"]}
    for ti, target in sorted(needed):
        if plan["knobs"].get("big"):
            ref = repo.reference(texts[ti], target, snippets_dir=repo.big_snippets_dir(target))
        else:
            ref = repo.reference(texts[ti], target)
        if ref.exc is not None:
            out["inconclusive"] = "reference-raises"
            return out
        refs[(ti, target)] = ref

    sb = kernel.Sandbox()
    try:
        sdirs: Dict[str, str] = {}
        for target in sorted({a["target"] for a in plan["actors"]}):
            if plan["knobs"].get("big"):
                sdirs[target] = repo.big_snippets_dir(target)
                continue
            sdirs[target] = sb.path("snippets", target)
            repo.write_tree(sdirs[target], repo.min_snippets(target))
        for a in plan["actors"]:
            p = sb.path("models", a["path"])
            os.makedirs(os.path.dirname(p), exist_ok=True)
            with kernel.real_open(p, "w", encoding="utf-8", newline="") as f:
                f.write(texts[a["text"]])
        knobs = plan["knobs"]
        sim = kernel.Sim(
            sb, seed_text=f"{plan['seed']}:C24:{plan['run']}", sched_roles=("tmp",),
            fault_roles=("tmp",), policy=plan["policy"], schedule=plan.get("schedule"),
            faults=plan.get("faults"), fault_policy=_fault_policy(plan),
            bufsize=int(knobs.get("bufsize", 8192)), max_io=int(knobs.get("max_io", 1 << 30)),
            step_cap=int(knobs.get("step_cap", 40000 if knobs.get("big") else 4000)),
            watchdog_s=1800.0 if knobs.get("big") else 900.0,
            same_pid=bool(knobs.get("same_pid", False)),
        )
        sim.pre_faults = 0  # type: ignore[attr-defined]
        results: Dict[str, repo.RunResult] = {}
        n_out = [0]

        def spawn(name: str, ti: int, target: str, model_rel: str) -> None:
            n_out[0] += 1
            out_dir = sb.path("out", name)
            os.makedirs(out_dir, exist_ok=True)
            model_path = sb.path("models", model_rel)

            def fn() -> repo.RunResult:
                res = repo.run_generator(model_path, target, sdirs[target], out_dir, cache=True)
                results[name] = res
                return res

            sim.spawn(name, fn)

        # ---- pre-phase
        for i, pre in enumerate(plan.get("pre", [])):
            sim.phase_kind = pre["kind"]  # type: ignore[attr-defined]
            a0 = next((a for a in plan["actors"] if a["text"] == pre["text"]), plan["actors"][0])
            spawn(f"P{i}", a0["text"], a0["target"], a0["path"])
            sim.run()
        sim.pre_faults = len(sim.faults_fired)  # type: ignore[attr-defined]

        # ---- main phase
        sim.phase_kind = "main"  # type: ignore[attr-defined]
        for a in plan["actors"]:
            spawn(a["name"], a["text"], a["target"], a["path"])
        sim.run()

        # ---- simulated time passes: file times are re-stamped in simulated-clock coordinates
        # (the sandbox files carry real timestamps, the code under test reads the simulated
        # clock), then the clock jumps; a run that compares st_mtime with time.time() sees the
        # strays of the crash as `gap` seconds old
        gap = float(knobs.get("recovery_gap", 0) or 0)
        if gap > 0:
            n_aged = 0
            for dirpath, _dirs, fnames in os.walk(sb.path("tmp")):
                for fn in fnames:
                    try:
                        kernel._REAL["os.utime"](os.path.join(dirpath, fn), (sim.vclock, sim.vclock))
                        n_aged += 1
                    except OSError:
                        pass
            sim.vclock += gap
            stats["probe:recovery_after_time_gap"] = 1
            if any(fn.endswith(".tmp") for _d, _s, fns in os.walk(sb.path("tmp")) for fn in fns):
                stats["probe:aged_stray_tmp_met_by_later_run"] = 1

        # ---- recovery phase: two fresh cached runs per (text, target) seen
        sim.phase_kind = "recovery"  # type: ignore[attr-defined]
        rec: List[Tuple[str, int, str]] = []
        seen = set()
        for a in plan["actors"]:
            if (a["text"], a["target"]) in seen:
                continue
            seen.add((a["text"], a["target"]))
            for j in range(2):
                name = f"R{len(rec)}"
                rec.append((name, a["text"], a["target"]))
                spawn(name, a["text"], a["target"], a["path"])
                sim.run()

        # ---- oracle
        if sim.capped:
            out["inconclusive"] = "step-cap"
        if sim.harness_error:
            raise kernel.HarnessError(sim.harness_error)
        if sim.bypasses:
            out["inconclusive"] = "seam-bypass:" + ",".join(sorted(set(sim.bypasses)))
        stats["seam_steps"] = sim.seq
        stats["sched_points"] = sim.sched_points
        stats[f"config:{plan['config']}"] = 1
        stats[f"policy:{plan['policy']['kind']}"] = 1
        if knobs.get("same_pid"):
            stats["probe:runs_with_colliding_pids"] = 1
        for f in sim.faults_fired:
            label = f["fault"] + ("@" + f["op"])
            stats["fault:" + label] = stats.get("fault:" + label, 0) + 1
        if not sim.capped:
            spec_by_name = {a["name"]: a for a in plan["actors"]}
            for actor in sim.actors:
                name = actor.name
                if name.startswith("P"):
                    continue
                if name.startswith("R"):
                    _, ti, target = next(r for r in rec if r[0] == name)
                    where = "recovery"
                else:
                    ti, target = spec_by_name[name]["text"], spec_by_name[name]["target"]
                    where = "main"
                    if actor.crashed:
                        stats["actors_crashed"] = stats.get("actors_crashed", 0) + 1
                        continue
                    if actor.faulted:
                        stats["actors_errno"] = stats.get("actors_errno", 0) + 1
                        continue
                stats["actors_judged"] = stats.get("actors_judged", 0) + 1
                res = results.get(name)
                ref = refs[(ti, target)]
                if actor.exc is not None or res is None or res.exc is not None:
                    exc = actor.exc or (res.exc if res is not None else ("?", "no result", ""))
                    violations.append({
                        "property": "C24", "class": f"{where}-exception:{exc[0]}@{exc[2]}",
                        "detail": f"actor {name} ({where}) raised {exc[0]}: {exc[1][:300]} at {exc[2]}",
                    })
                    continue
                res.files = repo.hash_tree(sb.path("out", name))
                why = _cmp(res, ref)
                if why is not None:
                    field = why.split(" ", 1)[0]
                    violations.append({
                        "property": "C24", "class": f"{where}-mismatch:{field}",
                        "detail": f"actor {name} ({where}): {why}",
                    })
                breach = repo.c03_monitor(res)
                if breach is not None:
                    violations.append({"property": "C24", "class": "c03:" + breach.split(":")[0][:40],
                                       "detail": f"actor {name}: {breach}"})
        _probes(sim, sb, stats)
        sig = sim.interleaving_digest()
        switches = sum(1 for i in range(1, len(sim.interleave_sig))
                       if sim.interleave_sig[i].split(":")[0] != sim.interleave_sig[i - 1].split(":")[0])
        if switches > len(sim.actors) or sim.faults_fired:
            out["distinct"] = [sig]
        plan = dict(plan)
        plan["schedule"] = list(sim.schedule_rec)
        plan["faults"] = [dict(f) for f in sim.faults_fired]
        out["plan"] = plan
        out["digest"] = sim.digest()
        if plan["run"] % 500 == 0 or violations:
            out["sample"] = {
                "run": plan["run"], "config": plan["config"], "policy": plan["policy"],
                "actors": plan["actors"], "pre": plan["pre"], "faults": plan["faults"],
                "trace_head": ["%s %s %s%s" % (e[1], e[2], e[3], (" !" + e[4]) if e[4] else "")
                               for e in sim.trace[:60]],
                "stray_files_left": stats.get("probe:stray_temp_files_left", 0),
            }
    finally:
        sb.cleanup()
    return out


def _probes(sim: kernel.Sim, sb: kernel.Sandbox, stats: Dict[str, int]) -> None:
    writer_open: Dict[str, str] = {}
    renames: Dict[str, int] = {}
    created_not_renamed: Dict[str, bool] = {}
    hit = set()
    for ev in sim.trace:
        seq, actor, kind, pidx, fault, n = ev[:6]
        if not pidx.startswith("tmp#"):
            continue
        if kind == "open_w":
            writer_open[actor] = pidx
            created_not_renamed[actor] = True
        elif kind == "close_w":
            writer_open.pop(actor, None)
        elif kind == "rename":
            renames[pidx] = renames.get(pidx, 0) + 1
            created_not_renamed.pop(actor, None)
        elif kind == "open_r":
            if any(a != actor for a in writer_open):
                hit.add("reader_opened_entry_while_writer_had_temp_open")
        elif kind == "stat":
            if any(a != actor for a in created_not_renamed):
                hit.add("reader_started_between_create_and_rename")
        if fault and fault.startswith("torn"):
            hit.add("crash_with_torn_temp_file")
        if fault and fault.startswith("crash") and kind == "unlink":
            hit.add("crash_after_rename_before_unlink")
        if fault and fault.startswith("crash") and kind == "rename":
            hit.add("crash_before_rename")
    if len(renames) < sum(renames.values()):
        pass
    # two renames in one run (same entry contended)
    if sum(renames.values()) >= 2:
        hit.add("two_or_more_renames_in_run")
    try:
        cache_dirs = kernel._REAL["os.listdir"](sb.path("tmp"))
        for d in cache_dirs:
            p = sb.path("tmp", d)
            if os.path.isdir(p):
                if any(n.endswith(".tmp") or ".tmp" in n for n in kernel._REAL["os.listdir"](p)):
                    hit.add("stray_temp_files_left")
    except OSError:
        pass
    for h in hit:
        stats["probe:" + h] = stats.get("probe:" + h, 0) + 1


# --------------------------------------------------------------------------------------
# reductions for the minimiser
# --------------------------------------------------------------------------------------


def reductions(plan: dict) -> Iterator[dict]:
    import copy

    def clone() -> dict:
        return copy.deepcopy(plan)

    # drop the pre-phase
    if plan.get("pre"):
        p = clone()
        p["pre"] = []
        yield p
    # drop an actor
    if len(plan["actors"]) > 1:
        for i in range(len(plan["actors"])):
            p = clone()
            gone = p["actors"].pop(i)["name"]
            p["faults"] = [f for f in (p.get("faults") or []) if f["actor"] != gone]
            p["schedule"] = [s for s in (p.get("schedule") or []) if s != gone]
            yield p
    # drop a fault
    for i in range(len(plan.get("faults") or [])):
        p = clone()
        p["faults"].pop(i)
        yield p
    # fewer seam steps: larger I/O units
    if plan["knobs"].get("max_io", 1 << 30) < (1 << 30) or plan["knobs"].get("bufsize") != 8192:
        p = clone()
        p["knobs"]["max_io"] = 1 << 30
        p["knobs"]["bufsize"] = 8192
        yield p
    if plan["knobs"].get("same_pid"):
        p = clone()
        p["knobs"]["same_pid"] = False
        yield p
    if plan["knobs"].get("recovery_gap"):
        p = clone()
        p["knobs"]["recovery_gap"] = 0
        yield p
    # remove text edits
    for i, t in enumerate(plan["texts"]):
        if t.get("edits"):
            p = clone()
            p["texts"][i]["edits"] = []
            yield p
    # sequentialise the schedule: ddmin-style, replace slices by "continue"
    sched = plan.get("schedule") or []
    if sched:
        p = clone()
        p["schedule"] = []
        yield p
    n = len(sched)
    size = n
    while size >= 1:
        for start in range(0, n, size):
            if all(s is None for s in sched[start:start + size]):
                continue
            p = clone()
            p["schedule"][start:start + size] = [None] * len(sched[start:start + size])
            yield p
        size //= 2
    # cut the tail of the schedule
    if n > 0 and any(s is not None for s in sched):
        last = max(i for i, s in enumerate(sched) if s is not None)
        if last + 1 < n:
            p = clone()
            p["schedule"] = sched[:last + 1]
            yield p
