"""C22 -- generation is deterministic (DESIGN.md section 2, C22).

The hash seed can only be chosen per interpreter, so every batch of cases is executed in
several fresh child interpreters; each child is a pure function of its spec.  Seeded
dimensions: PYTHONHASHSEED, heap layout (junk allocations, scrambled free lists), directory
listing order of the snippets (scandir seam), output directory location and history, position
in the process, simulated wall clock (years apart) and environment (TZ, LANG, USER, HOME, HOSTNAME;
one child per plan runs under a real non-UTF-8 locale).
"""
from __future__ import annotations

import hashlib
import json
import os
import random
import shutil
import subprocess
import sys
from typing import Any, Dict, Iterator, List, Optional, Tuple

from dsim import kernel, repo, workload

PROPERTY_IDS = ["C22"]
LEVEL = "exploration"

tiers: Dict[str, Dict[str, Any]] = {
    "quick": {"runs": 0, "chunk": 1, "wall_cap_s": 2400, "determinism_samples": 2,
              "children": 3, "big_children": 2, "batch": 28, "max_minimise": 3,
              "minimise_budget_s": 90},
    "thorough": {"runs": 0, "chunk": 1, "wall_cap_s": 7200, "determinism_samples": 2,
                 "children": 12, "big_children": 4, "batch": 28, "max_minimise": 4,
                 "minimise_budget_s": 240},
}

LOCS = ["plain", "deep", "space", "relative", "in_snippets"]
HISTORIES = ["absent", "empty", "other", "longer", "crlf", "cr", "same", "space_tail", "binary"]
SNIPPET_VARIANTS = ["min", "min", "extra_valid", "invalid2", "invalid3", "invalid_siblings"]

_CASES: Dict[str, List[dict]] = {}


def _all_cases(seed: int, tier: str) -> List[dict]:
    key = f"{seed}:{tier}"
    if key not in _CASES:
        table = workload.usable_table()
        rng = random.Random(f"{seed}:C22:cases")
        cases = []
        for (model, target), status in sorted(table.items()):
            if status == "raises":
                continue
            # every pair runs with valid snippets (generation is reached) ...
            cases.append({"model": model, "target": target,
                          "snippets": rng.choice(["min", "min", "extra_valid"])})
            # ... and a third of them additionally with invalid ones (error reports)
            if rng.random() < 0.33:
                cases.append({"model": model, "target": target,
                              "snippets": rng.choice(["invalid2", "invalid3", "invalid_siblings"])})
            # ... and some with non-ASCII text in the model (own stream: the draws above stay)
            if random.Random(f"{seed}:C22:nonascii:{model}:{target}").random() < 0.15:
                cases.append({"model": model, "target": target, "snippets": "min",
                              "edits": [["namespace_twin", 6], ["tail_comment", "\u00fc\u4e2d"]]})
        rng.shuffle(cases)
        _CASES[key] = cases
    return _CASES[key]


def _big_targets(tier: str) -> List[str]:
    return ["jsonschema", "xsd", "python", "typescript"] if tier == "quick" else list(repo.TARGETS)


def prepare(tier: str) -> None:
    workload.usable_table()
    from dsim import driver

    seed = driver.base_seed()
    n = len(_all_cases(seed, tier))
    batch = int(tiers[tier]["batch"])
    n_batches = (n + batch - 1) // batch
    tiers[tier]["runs"] = len(_big_targets(tier)) + n_batches
    tiers[tier]["n_small_batches"] = n_batches


def describe() -> dict:
    return {
        "rule": (
            "one simulated run = one batch (<= 28 cases (model, snippets variant, target) of the "
            "corpus incl. rejected models, or one aas_core_meta.v3 x target case) executed in "
            "3 (quick) / 12 (thorough) fresh interpreters that differ in PYTHONHASHSEED, heap "
            "junk, snippets listing order, output-dir location (plain/deep/space+unicode/"
            "relative/beneath the snippets dir), output-dir history (absent/empty/foreign files/same-named files that are longer, "
            "identical, equal up to CRLF / CR / trailing blanks, or not UTF-8), position of the case in the process, simulated wall clock (time/datetime seams, epochs years apart) and environment (TZ, LANG, USER, HOME, HOSTNAME; one child per plan really runs under LC_ALL=C without UTF-8 mode, i.e. ASCII as the default text encoding, and a share of the cases carries non-ASCII text in the model); compared: rc, stdout up to the "
            "output path, stderr, sha256 of every file the run wrote; one evaluation = one execution of a case in one interpreter. distinct = distinct "
            "cases whose results were compared across >= 2 interpreters."
        ),
        "real": ["aas_core_codegen in fresh interpreters (real PYTHONHASHSEED randomisation)",
                 "tmpfs file system", "pathlib glob"],
        "stub": ["os.scandir/os.listdir order permuted by the seeded seam",
                 "OS temp dir redirected into the sandbox"],
        "assumptions": ["each child interpreter is individually deterministic given its spec "
                        "(checked by the determinism self-test on sampled batches)"],
    }


# --------------------------------------------------------------------------------------


def gen_plan(seed: int, run: int, tier: str) -> dict:
    cfg = tiers[tier]
    rng = random.Random(f"{seed}:C22:{run}")
    big_targets = _big_targets(tier)
    n_big = len(big_targets)
    if run < n_big:
        cases = [{"model": "common/aas_core_meta.v3", "target": big_targets[run],
                  "snippets": "big"}]
        n_children = int(cfg["big_children"])
    else:
        allc = _all_cases(seed, tier)
        b = run - n_big
        batch = int(cfg["batch"])
        cases = allc[b * batch:(b + 1) * batch]
        n_children = int(cfg["children"])
    children = []
    hashseeds = rng.sample(range(1, 4000), n_children)
    for i in range(n_children):
        children.append({
            "hashseed": hashseeds[i],
            "junk": rng.randrange(1 << 30),
            "order_seed": rng.randrange(1 << 30),
            "pos_seed": rng.randrange(1 << 30),
            "loc_seed": rng.randrange(1 << 30),
            "hist_seed": rng.randrange(1 << 30),
            "env_seed": rng.randrange(1 << 30),
        })
    # the second "machine" of every plan has a non-UTF-8 locale (real: LC_ALL=C without UTF-8
    # mode or coercion, so `open()` without an explicit encoding means ASCII there)
    if len(children) > 1:
        children[1]["locale"] = "C"
    return {"engine": "determinism", "seed": seed, "run": run, "cases": cases,
            "children": children}


def _case_snippets(case: dict) -> Dict[str, Any]:
    sn: Dict[str, Any] = dict(repo.min_snippets(case["target"]))
    v = case["snippets"]
    if v == "extra_valid":
        sn["Types/Verif_unused/extra_a.txt"] = "a"
        sn["Types/Verif_unused/extra_b.txt"] = "  b\n"
        sn["zz_unused.txt"] = "z"
        sn["aa_unused.txt"] = "a"
    elif v in ("invalid2", "invalid3"):
        sn["bad key one.txt"] = "x"
        sn["9starts_with_digit.txt"] = "y"
        sn["nested/also bad.txt"] = "z"
    elif v == "invalid_siblings":
        # invalid files spread over sibling directories at two levels
        for d in ("alpha", "beta", "gamma", "delta/one", "delta/two"):
            sn[f"{d}/bad key.txt"] = "x"
            sn[f"{d}/ok.txt"] = "fine"
        sn["zeta/not_utf8.txt"] = b"\xff\xfe"
    if v == "invalid3":
            sn["not_utf8.txt"] = b"\xff\xfe\xfd"
            sn["nested/not_utf8_either.txt"] = b"ok \xc3\x28"
    return sn


def child_main(spec_path: str) -> int:
    """Runs in a fresh interpreter: execute every case of the spec, print the results."""
    with open(spec_path, encoding="utf-8") as f:
        spec = json.load(f)
    child = spec["child"]
    # clock and environment of this "machine": installed before the code under test is
    # imported, so that `from datetime import datetime` binds the simulated class as well
    kernel.install_seams()
    env_rng = random.Random(child.get("env_seed", 0))
    os.environ["TZ"] = env_rng.choice(["UTC", "Europe/Zurich", "Asia/Tokyo", "America/New_York"])
    try:
        import time as _time

        _time.tzset()
    except Exception:
        pass
    os.environ["LANG"] = env_rng.choice(["C", "C.UTF-8", "en_US.UTF-8", "de_CH.UTF-8"])
    os.environ["LC_ALL"] = os.environ["LANG"]
    os.environ["USER"] = os.environ["LOGNAME"] = env_rng.choice(["root", "alice", "build-bot"])
    os.environ["HOME"] = "/home/" + os.environ["USER"]
    os.environ["HOSTNAME"] = env_rng.choice(["ci-01", "laptop", "node-7f3a"])
    epoch = 1_600_000_000.0 + env_rng.randrange(0, 200_000_000)
    repo.activate()
    cases = spec["cases"]
    junk_rng = random.Random(child["junk"])
    junk: List[Any] = []
    for _ in range(junk_rng.randrange(10, 400)):
        junk.append([object() for _ in range(junk_rng.randrange(1, 200))])
        if junk_rng.random() < 0.3 and junk:
            junk.pop(junk_rng.randrange(len(junk)))
    # Scramble the allocator's free lists: sequentially created objects normally get increasing
    # addresses, so code that orders by id() *looks* deterministic.  Fill every small size
    # class, then free a seeded subset in seeded order: later allocations reuse those holes in
    # LIFO order, i.e. with non-monotonic addresses that differ between children.
    class _Slot:  # instances with a dict, like most objects of the code under test
        pass

    holes: List[Any] = []
    for size in range(0, 480, 8):
        holes.extend(bytes(size) for _ in range(junk_rng.randrange(50, 400)))
    for _ in range(junk_rng.randrange(2000, 20000)):
        o = _Slot()
        o.a = 1  # type: ignore[attr-defined]
        holes.append(o)
    holes.extend([None] * k for k in range(1, 30) for _ in range(junk_rng.randrange(20, 200)))
    junk_rng.shuffle(holes)
    keep = junk_rng.randrange(len(holes) // 4, len(holes) // 2)
    while len(holes) > keep:
        holes.pop()
    junk.append(holes)
    order = list(range(len(cases)))
    random.Random(child["pos_seed"]).shuffle(order)
    results: Dict[str, Any] = {}
    cwd0 = os.getcwd()
    for pos, idx in enumerate(order):
        case = cases[idx]
        crng = random.Random(f"{child['loc_seed']}:{idx}")
        hrng = random.Random(f"{child['hist_seed']}:{idx}")
        loc = child.get("loc_force") or LOCS[crng.randrange(len(LOCS))]
        hist = child.get("hist_force") or HISTORIES[hrng.randrange(len(HISTORIES))]
        text = workload.materialise({"model": case["model"], "edits": case.get("edits", [])})
        sb = kernel.Sandbox()
        try:
            model_path = sb.path("models", "meta_model.py")
            with kernel.real_open(model_path, "w", encoding="utf-8", newline="") as f:
                f.write(text)
            if case["snippets"] == "big":
                sdir = repo.big_snippets_dir(case["target"])
            else:
                sdir = sb.path("snippets", "s")
                files = list(_case_snippets(case).items())
                random.Random(f"{child['order_seed']}:create:{idx}").shuffle(files)
                for rel, content in files:  # creation order also varies
                    repo.write_tree(sdir, {rel: content})
            if loc == "in_snippets" and case["snippets"] == "big":
                loc = "plain"  # never write into the repository's fixture directory
            # (a machine whose file-system encoding is ASCII cannot even create "ö ü")
            sub = {"plain": "o", "deep": "a/b/c/o",
                   "space": "with space/o u/o" if child.get("locale") == "C" else "with space/ö ü/o",
                   "relative": "rel/o", "in_snippets": ""}[loc]
            out_abs = sb.path("out", sub)
            if loc == "in_snippets":
                out_abs = os.path.join(sdir, "generated", "o")
                if hist not in ("absent", "empty"):
                    # files already in the output dir would be *snippets* here, i.e. a different
                    # input, not a different history of the same input
                    hist = "empty"
            os.makedirs(os.path.dirname(out_abs), exist_ok=True)
            if hist != "absent":
                os.makedirs(out_abs)
            if hist == "other":
                repo.write_tree(out_abs, {"leftover.txt": "left over\n" * 50,
                                          "src/leftover.cpp": "// x\n", "schema.json": "{" * 9000,
                                          "schema.xsd": "<" * 9000})
            elif hist in ("longer", "crlf", "cr", "same", "space_tail", "binary"):
                # same-named files from an "earlier generation": longer, or equal up to line
                # endings / trailing blanks (a checkout with autocrlf, an editor), or identical
                scratch = sb.path("out", "scratch")
                os.makedirs(scratch)
                repo.run_generator(model_path, case["target"], sdir, scratch, cache=False)
                for rel in repo.hash_tree(scratch):
                    with kernel.real_open(os.path.join(scratch, rel), "rb") as f:
                        data = f.read()
                    if hist == "longer":
                        data = data + b"\n/* stale tail */\n" * 40
                    elif hist == "crlf":
                        data = data.replace(b"\r\n", b"\n").replace(b"\n", b"\r\n")
                    elif hist == "cr":
                        data = data.replace(b"\r\n", b"\n").replace(b"\n", b"\r")
                    elif hist == "space_tail":
                        data = data.replace(b"\n", b" \n") + b"\n"
                    elif hist == "binary":
                        data = b"\xff\xfe\x00\x81 stale binary \xc3\x28" * 200
                    repo.write_tree(out_abs, {rel: data})
                shutil.rmtree(scratch)
            if loc == "relative":
                os.chdir(sb.path("out"))
                out_arg = os.path.join("rel", "o")
            else:
                out_arg = out_abs
            sim = kernel.Sim(sb, seed_text=f"{child['order_seed']}:{idx}", sched_roles=(),
                             fault_roles=(), shuffle_listing=True, epoch=epoch + 86400.0 * pos)
            box: Dict[str, repo.RunResult] = {}

            def fn() -> None:
                box["res"] = repo.run_generator(model_path, case["target"], sdir, out_arg,
                                                cache=False)

            actor = sim.spawn("run", fn)
            sim.run()
            os.chdir(cwd0)
            res = box.get("res")
            written = set()
            out_rel = os.path.relpath(out_abs, sb.root)
            for ev in actor.audit:
                if ev[0] == "open" and ev[3] == "w" and ev[1] in ("out", "snippets"):
                    if ev[2].startswith(out_rel + os.sep):
                        written.add(os.path.relpath(ev[2], out_rel))
            files = {}
            for rel in sorted(written):
                p = os.path.join(out_abs, rel)
                try:
                    with kernel.real_open(p, "rb") as f:
                        files[rel] = hashlib.sha256(f.read()).hexdigest()[:24]
                except OSError as error:
                    files[rel] = f"<{error.errno}>"
            if res is None:
                results[str(idx)] = {"exc": list(actor.exc or ("?", "", "")), "pos": pos,
                                     "loc": loc, "hist": hist}
            else:
                err = res.err
                if case["snippets"] != "big":
                    err = err.replace(sdir, "<SNIPPETS>")
                results[str(idx)] = {"rc": res.rc, "out": res.out, "err": err,
                                     "exc": list(res.exc) if res.exc else None, "files": files,
                                     "pos": pos, "loc": loc, "hist": hist,
                                     "listed": sum(1 for e in actor.audit if e[0] == "os.scandir")}
        finally:
            os.chdir(cwd0)
            sb.cleanup()
    sys.stdout.write("RESULTS " + json.dumps(results) + "\n")
    return 0


def _run_child(plan: dict, i: int, workdir: str) -> Dict[str, Any]:
    child = plan["children"][i]
    spec_path = os.path.join(workdir, f"child{i}.json")
    with open(spec_path, "w", encoding="utf-8") as f:
        json.dump({"child": child, "cases": plan["cases"]}, f)
    env = dict(os.environ)
    env["PYTHONHASHSEED"] = str(child["hashseed"])
    for k in ("LC_CTYPE", "LANGUAGE", "PYTHONIOENCODING"):
        env.pop(k, None)
    if child.get("locale") == "C":
        env.update({"LC_ALL": "C", "LANG": "C", "PYTHONUTF8": "0", "PYTHONCOERCECLOCALE": "0"})
    else:
        env.update({"LC_ALL": "C.UTF-8", "LANG": "C.UTF-8"})
        env.pop("PYTHONUTF8", None)
        env.pop("PYTHONCOERCECLOCALE", None)
    check = os.path.join(os.path.dirname(os.path.dirname(os.path.abspath(__file__))),
                         "bin", "check.py")
    proc = subprocess.run([sys.executable, check, "determinism", "--child", spec_path],
                          env=env, capture_output=True, text=True, timeout=1500)
    line = [l for l in proc.stdout.splitlines() if l.startswith("RESULTS ")]
    if proc.returncode != 0 or not line:
        raise kernel.HarnessError(
            f"determinism child failed rc={proc.returncode}: {(proc.stderr or proc.stdout)[-1500:]}")
    return json.loads(line[0][len("RESULTS "):])


FIELDS = ["rc", "out", "err", "exc", "files"]
_counter = [0]


def _next_id() -> int:
    _counter[0] += 1
    return _counter[0]


def execute(plan: dict) -> dict:
    stats: Dict[str, int] = {}
    violations: List[dict] = []
    out: Dict[str, Any] = {"plan": plan, "violations": violations, "stats": stats,
                           "distinct": [], "inconclusive": None, "digest": None, "sample": None}
    workdir = os.path.join(kernel.sandbox_base(),
                           f"aascg-det-{os.getpid()}-{plan['run']}-{_next_id()}")
    os.makedirs(workdir, exist_ok=True)
    try:
        all_res = [_run_child(plan, i, workdir) for i in range(len(plan["children"]))]
    finally:
        shutil.rmtree(workdir, ignore_errors=True)
    h = hashlib.sha256()
    for idx, case in enumerate(plan["cases"]):
        rs = [r[str(idx)] for r in all_res]
        stats["case_executions"] = stats.get("case_executions", 0) + len(rs)
        stats["evaluations"] = stats.get("evaluations", 0) + len(rs)
        stats["seam_steps"] = stats.get("seam_steps", 0) + sum(r.get("listed", 0) for r in rs)
        for r in rs:
            stats[f"probe:loc_{r['loc']}"] = stats.get(f"probe:loc_{r['loc']}", 0) + 1
            stats[f"probe:hist_{r['hist']}"] = stats.get(f"probe:hist_{r['hist']}", 0) + 1
        base = rs[0]
        if base.get("rc") not in (None, 0):
            stats["error_runs_compared"] = stats.get("error_runs_compared", 0) + 1
        h.update(json.dumps([[r.get(f) for f in FIELDS] for r in rs], sort_keys=True).encode())
        for j, r in enumerate(rs[1:], start=1):
            bad = [f for f in FIELDS if r.get(f) != base.get(f)]
            if not bad:
                continue
            f0 = bad[0]
            a, b = base.get(f0), r.get(f0)
            if f0 == "files":
                keys = sorted(k for k in set(a or {}) | set(b or {}) if (a or {}).get(k) != (b or {}).get(k))
                what = f"files differ: {keys[:5]}"
            else:
                what = f"{f0}: {str(a)[:300]!r} vs {str(b)[:300]!r}"
            violations.append({
                "property": "C22", "class": f"nondeterministic:{f0}",
                "detail": (f"case {case} gives different {f0} in two interpreters "
                           f"(hash seeds {plan['children'][0]['hashseed']}/{plan['children'][j]['hashseed']}, "
                           f"loc {base['loc']}/{r['loc']}, history {base['hist']}/{r['hist']}, "
                           f"position {base['pos']}/{r['pos']}): {what}"),
            })
            break
        out["distinct"].append(f"{case['model']}|{case['target']}|{case['snippets']}")
    out["digest"] = h.hexdigest()
    if plan["run"] % 12 == 0 or violations:
        idx = 0
        out["sample"] = {"run": plan["run"], "case": plan["cases"][idx],
                         "children": [{k: c[k] for k in ("hashseed",)} for c in plan["children"]],
                         "results": [{k: (r[str(idx)].get(k) if k != "files" else len(r[str(idx)].get("files") or {}))
                                      for k in ("rc", "loc", "hist", "pos", "files")}
                                     for r in all_res],
                         "stderr_head": (all_res[0][str(idx)].get("err") or "")[:200]}
    return out


def reductions(plan: dict) -> Iterator[dict]:
    import copy

    cases = plan["cases"]
    n = len(cases)
    if n > 1:
        size = max(1, n // 2)
        while size >= 1:
            for start in range(0, n, size):
                p = copy.deepcopy(plan)
                p["cases"] = cases[start:start + size]
                yield p
            if size == 1:
                break
            size //= 2
    ch = plan["children"]
    if len(ch) > 2:
        for j in range(1, len(ch)):
            p = copy.deepcopy(plan)
            p["children"] = [ch[0], ch[j]]
            yield p
    if len(ch) == 2:
        for dim in ("hashseed", "junk", "order_seed", "pos_seed", "loc_seed", "hist_seed", "env_seed"):
            if ch[0][dim] != ch[1][dim]:
                p = copy.deepcopy(plan)
                p["children"][1][dim] = ch[0][dim]
                yield p
        for force, values in (("loc_force", "plain"), ("hist_force", "empty")):
            if ch[0].get(force) != values or ch[1].get(force) != values:
                p = copy.deepcopy(plan)
                p["children"][0][force] = values
                p["children"][1][force] = values
                yield p
