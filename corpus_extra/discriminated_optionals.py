"""
Meta-model of the verification corpus: optional and required properties whose class has
concrete descendants (so that the value is nested in a discriminator element), named like the
classes themselves, including a recursive one.
"""

from typing import List, Optional

from icontract import DBC

from aas_core_meta.marker import (
    abstract,
    serialization,
)

__version__ = "verif-1"

__xml_namespace__ = "https://dummy.com"


@serialization(with_model_type=True)
class Item(DBC):
    """Represent an item which may wrap another :class:`Item`."""

    name: str

    item: Optional["Item"]
    """The wrapped item, named like its class."""

    count: Optional[int]

    def __init__(
        self,
        name: str,
        item: Optional["Item"] = None,
        count: Optional[int] = None,
    ) -> None:
        self.name = name
        self.item = item
        self.count = count


class Special_item(Item):
    """Represent a special :class:`Item`."""

    grade: Optional[float]

    def __init__(
        self,
        name: str,
        item: Optional["Item"] = None,
        count: Optional[int] = None,
        grade: Optional[float] = None,
    ) -> None:
        Item.__init__(self, name=name, item=item, count=count)
        self.grade = grade


class Container(DBC):
    """Contain items in properties named like the classes."""

    item: Optional["Item"]

    special_item: Optional["Special_item"]

    items: Optional[List["Item"]]

    required_item: "Item"

    def __init__(
        self,
        required_item: "Item",
        item: Optional["Item"] = None,
        special_item: Optional["Special_item"] = None,
        items: Optional[List["Item"]] = None,
    ) -> None:
        self.required_item = required_item
        self.item = item
        self.special_item = special_item
        self.items = items
