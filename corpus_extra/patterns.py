"""
Meta-model of the verification corpus: constrained primitives with several patterns.

A child primitive inherits a pattern from its parent and adds three of its own; a class
adds further patterns to a property whose type already carries patterns. Several merges in
schema inference therefore contribute two or more new patterns at once.
"""

from re import match
from typing import List, Optional

from icontract import invariant, DBC

from aas_core_meta.marker import (
    verification,
)

__version__ = "verif-1"

__xml_namespace__ = "https://dummy.com"


@verification
def matches_starts_with_letter(text: str) -> bool:
    """Check that :paramref:`text` starts with a letter."""
    pattern = f"^[a-zA-Z].*$"

    return match(pattern, text) is not None


@verification
def matches_no_blanks(text: str) -> bool:
    """Check that :paramref:`text` contains no blanks."""
    pattern = f"^[^ ]*$"

    return match(pattern, text) is not None


@verification
def matches_ends_with_x(text: str) -> bool:
    """Check that :paramref:`text` ends with an x."""
    pattern = f"^.*x$"

    return match(pattern, text) is not None


@verification
def matches_contains_dash(text: str) -> bool:
    """Check that :paramref:`text` contains a dash."""
    pattern = f"^.*-.*$"

    return match(pattern, text) is not None


@verification
def matches_lower_case(text: str) -> bool:
    """Check that :paramref:`text` is in lower case."""
    pattern = f"^[^A-Z]*$"

    return match(pattern, text) is not None


@verification
def matches_no_underscore(text: str) -> bool:
    """Check that :paramref:`text` contains no underscore."""
    pattern = f"^[^_]*$"

    return match(pattern, text) is not None


@invariant(lambda self: matches_starts_with_letter(self), "Starts with a letter")
@invariant(lambda self: len(self) >= 1, "Not empty")
class Name(str, DBC):
    """Represent a name."""


@invariant(lambda self: matches_contains_dash(self), "Contains a dash")
@invariant(lambda self: matches_ends_with_x(self), "Ends with an x")
@invariant(lambda self: matches_no_blanks(self), "No blanks")
class Serial(Name, DBC):
    """Represent a serial number, a special :class:`Name`."""


@invariant(lambda self: matches_no_underscore(self), "No underscore")
@invariant(lambda self: matches_lower_case(self), "Lower case")
class Slug(Serial, DBC):
    """Represent a slug, a special :class:`Serial`."""


@invariant(
    lambda self: matches_no_underscore(self.serial), "Serial has no underscore"
)
@invariant(lambda self: matches_lower_case(self.serial), "Serial is in lower case")
@invariant(
    lambda self: not (self.nick is not None) or matches_no_blanks(self.nick),
    "Nick has no blanks",
)
@invariant(
    lambda self: not (self.nick is not None) or matches_ends_with_x(self.nick),
    "Nick ends with an x",
)
class Device(DBC):
    """Represent a device identified by a :class:`Serial`."""

    name: Name

    serial: Serial

    slug: Optional[Slug]

    nick: Optional[Name]

    def __init__(
        self,
        name: Name,
        serial: Serial,
        slug: Optional[Slug] = None,
        nick: Optional[Name] = None,
    ) -> None:
        self.name = name
        self.serial = serial
        self.slug = slug
        self.nick = nick
