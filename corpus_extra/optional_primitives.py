"""
Meta-model of the verification corpus: cross references and optional primitives of every kind.

The descriptions of enumeration literals, classes, properties and constants refer to each
other (:class:`Shape`, :class:`Color`, :const:`Primary_colors`, :const:`Warm_colors`,
:attr:`Shape.color`), so that the object graph of the symbol table is cyclic in many ways.
"""

from enum import Enum
from typing import List, Optional, Set

from icontract import invariant, DBC

from aas_core_meta.marker import (
    abstract,
    serialization,
    constant_set,
)

__version__ = "verif-1"

__xml_namespace__ = "https://dummy.com"


class Color(Enum):
    """
    Enumerate colors.

    The primary ones are listed in :const:`Primary_colors`, the warm ones in
    :const:`Warm_colors`; see also :attr:`Shape.color`.
    """

    Red = "red"
    """
    Red is a member of :const:`Primary_colors` and of :const:`Warm_colors`.

    It is the default of :class:`Circle`.
    """

    Green = "green"
    """Green is only in :const:`Primary_colors`; compare :attr:`Red`."""

    Blue = "blue"
    """Blue is in :const:`Primary_colors`, but not in :const:`Warm_colors`."""

    Orange = "orange"
    """Orange is in :const:`Warm_colors` and is used by :class:`Square`."""


class Size(Enum):
    """Enumerate sizes; see :attr:`Shape.size` and :const:`Extreme_sizes`."""

    Small = "S"
    """The small one, in :const:`Extreme_sizes`."""

    Medium = "M"

    Large = "L"
    """The large one, in :const:`Extreme_sizes`, the opposite of :attr:`Small`."""


@abstract
@serialization(with_model_type=True)
class Shape(DBC):
    """
    Represent a shape which is either a :class:`Circle` or a :class:`Square`.

    The :attr:`color` should be one of :const:`Primary_colors`.
    """

    color: Optional["Color"]
    """Color of the shape, see :class:`Color` and :const:`Warm_colors`."""

    size: "Size"
    """Size of the shape, see :class:`Size`."""

    def __init__(self, size: "Size", color: Optional["Color"] = None) -> None:
        self.size = size
        self.color = color


class Circle(Shape):
    """A round :class:`Shape`; :attr:`radius` is in meters."""

    radius: float
    """Radius of the circle."""

    weight: Optional[float]
    """Optional weight, compare :attr:`Square.edge_count`."""

    def __init__(
        self,
        size: "Size",
        radius: float,
        color: Optional["Color"] = None,
        weight: Optional[float] = None,
    ) -> None:
        Shape.__init__(self, size=size, color=color)
        self.radius = radius
        self.weight = weight


class Square(Shape):
    """A :class:`Shape` with corners; it contains other shapes in :attr:`inner`."""

    edge_count: Optional[int]
    """Optional number of edges, compare :attr:`Circle.weight`."""

    inner: Optional[List["Shape"]]
    """Shapes drawn inside; each one is again a :class:`Shape`."""

    label: Optional[str]

    flagged: Optional[bool]

    payload: Optional[bytearray]

    def __init__(
        self,
        size: "Size",
        color: Optional["Color"] = None,
        edge_count: Optional[int] = None,
        inner: Optional[List["Shape"]] = None,
        label: Optional[str] = None,
        flagged: Optional[bool] = None,
        payload: Optional[bytearray] = None,
    ) -> None:
        Shape.__init__(self, size=size, color=color)
        self.edge_count = edge_count
        self.inner = inner
        self.label = label
        self.flagged = flagged
        self.payload = payload


class Drawing(DBC):
    """Collect :class:`Shape`'s; the :attr:`favourite` hints at the :class:`Color`'s."""

    shapes: List["Shape"]

    favourite: Optional["Color"]
    """Preferred color, usually one of :const:`Primary_colors`."""

    scale: Optional[float]

    revision: Optional[int]

    title: str

    def __init__(
        self,
        shapes: List["Shape"],
        title: str,
        favourite: Optional["Color"] = None,
        scale: Optional[float] = None,
        revision: Optional[int] = None,
    ) -> None:
        self.shapes = shapes
        self.title = title
        self.favourite = favourite
        self.scale = scale
        self.revision = revision


Primary_colors: Set[Color] = constant_set(
    values=[Color.Red, Color.Green, Color.Blue],
    description="Primary :class:`Color`'s, among them :attr:`Color.Red`.",
)

Warm_colors: Set[Color] = constant_set(
    values=[Color.Red, Color.Orange],
    description="Warm colors, a different cut than :const:`Primary_colors`.",
)

Extreme_sizes: Set[Size] = constant_set(
    values=[Size.Small, Size.Large],
    description="The two ends of :class:`Size`.",
)
