#!/venv/bin/python
"""MANIFEST.setup_cmd: nothing to build; verify that the framework and the repo import."""
import os, sys
VERIF = os.path.dirname(os.path.dirname(os.path.abspath(__file__)))
sys.path.insert(0, VERIF)
from dsim import kernel, repo, driver, workload  # noqa
cg = repo.activate()
print("aas_core_codegen", cg.__version__, "from", os.path.dirname(cg.__file__))
print("corpus models:", len(repo.corpus(include_big=True)))
os.makedirs(os.path.join(VERIF, "evidence"), exist_ok=True)
os.makedirs(os.path.join(VERIF, "replays"), exist_ok=True)
sb = kernel.Sandbox(); print("sandbox base:", os.path.dirname(sb.root)); sb.cleanup()
import subprocess
rc = subprocess.call([sys.executable, os.path.join(VERIF, "bin", "kernel_selftest.py")],
                     env=dict(os.environ, PYTHONHASHSEED="0"))
if rc != 0:
    sys.exit("kernel self-test failed")
