#!/venv/bin/python
"""Sensitivity / soundness self-test: run a check against mutated scratch copies of the repo.

    selftest.py <engine> [--runs N] [--only substring] [--jobs J]

Every ``selftest/<engine>/*.patch`` starts with ``# expect: caught`` or ``# expect: quiet``.
The scratch copy lives under /dev/shm and is removed afterwards; evidence and replay files
of these runs go to the scratch directory, never to /verif/evidence.
"""
import argparse, os, shutil, subprocess, sys, time

VERIF = os.path.dirname(os.path.dirname(os.path.abspath(__file__)))
REPO = os.environ.get("VERIF_REPO", "/repo")


def make_scratch(tag):
    base = "/dev/shm" if os.path.isdir("/dev/shm") else "/tmp"
    root = os.path.join(base, f"aascg-scratch-{os.getpid()}-{tag}")
    if os.path.exists(root):
        shutil.rmtree(root)
    os.makedirs(root)
    shutil.copytree(os.path.join(REPO, "aas_core_codegen"), os.path.join(root, "aas_core_codegen"),
                    ignore=shutil.ignore_patterns("__pycache__"))
    os.symlink(os.path.join(REPO, "dev"), os.path.join(root, "dev"))
    return root


def main():
    ap = argparse.ArgumentParser()
    ap.add_argument("engine")
    ap.add_argument("--runs", type=int)
    ap.add_argument("--only", default="")
    ap.add_argument("--tier", default="quick")
    ap.add_argument("--patch", help="run against this single patch file instead of the catalogue")
    ap.add_argument("--expect", default="caught")
    ap.add_argument("--seed")
    args = ap.parse_args()
    d = os.path.join(VERIF, "selftest", args.engine)
    if args.patch:
        patches = [os.path.abspath(args.patch)]
    else:
        patches = sorted(f for f in os.listdir(d) if f.endswith(".patch") and args.only in f)
    bad = 0
    for name in patches:
        path = os.path.join(d, name)
        if args.patch:
            expect = args.expect
            name = os.path.basename(os.path.dirname(path)) + "_" + os.path.basename(path)
        else:
            with open(path) as f:
                first = f.readline()
            expect = first.split(":", 1)[1].strip()
        root = make_scratch(name.split(".")[0])
        try:
            r = subprocess.run(["patch", "-p1", "-s", "-d", root, "-i", path], capture_output=True, text=True)
            if r.returncode != 0:
                print(f"{name}: PATCH FAILED {r.stdout} {r.stderr}")
                bad += 1
                continue
            env = dict(os.environ, VERIF_REPO=root, VERIF_OUT=os.path.join(root, "_out"))
            if args.seed:
                env["VERIF_SEED"] = args.seed
            cmd = [sys.executable, os.path.join(VERIF, "bin", "check.py"), args.engine, "--tier", args.tier]
            if args.runs:
                cmd += ["--runs", str(args.runs)]
            t0 = time.time()
            r = subprocess.run(cmd, env=env, capture_output=True, text=True)
            got = {0: "quiet", 1: "caught"}.get(r.returncode, f"harness-error({r.returncode})")
            ok = got == expect
            lines = [l for l in r.stdout.splitlines() if l.startswith("VIOLATION") or l.startswith("  C")]
            print(f"{name}: expect={expect} got={got} {'OK' if ok else 'MISMATCH'} ({time.time()-t0:.0f}s) "
                  + (" | ".join(l.strip()[:160] for l in lines[:3])))
            if not ok:
                bad += 1
                print(r.stdout[-1500:])
                print(r.stderr[-1500:])
            if args.patch and os.path.isdir(os.path.join(root, "_out", "replays")):
                keep = os.path.join(os.path.dirname(path), "replays_found")
                shutil.rmtree(keep, ignore_errors=True)
                shutil.copytree(os.path.join(root, "_out", "replays"), keep)
        finally:
            shutil.rmtree(root, ignore_errors=True)
    print(f"selftest {args.engine}: {len(patches) - bad}/{len(patches)} as expected")
    return 1 if bad else 0


if __name__ == "__main__":
    sys.exit(main())
