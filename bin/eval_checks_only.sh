#!/bin/bash
# run only step 3 of eval_seeded.sh (the checks against the patch) and append to confirm.log
id=$1; shift
V=$(cd "$(dirname "$0")/.." && pwd)
dst=$V/seeded/$id
for e in "$@"; do
  /venv/bin/python "$V/bin/selftest.py" "$e" --patch "$dst/patch.diff" --expect caught 2>&1 | grep "expect=\|selftest" | cut -c1-400 | tee -a "$dst/confirm.log"
done
