#!/venv/bin/python
"""Write seeded/<id>/meta.json from the confirmation log plus the annotations given here."""
import json, os, re, sys
VERIF = os.path.dirname(os.path.dirname(os.path.abspath(__file__)))

ANNOT = json.load(open(os.path.join(VERIF, "seeded", "annotations.json")))

for sid, a in sorted(ANNOT.items()):
    d = os.path.join(VERIF, "seeded", sid)
    log = os.path.join(d, "confirm.log")
    if not os.path.exists(log):
        print("no confirm.log for", sid)
        continue
    text = open(log, errors="replace").read()
    m0 = re.search(r"demo without patch: rc=(\d+)", text)
    m1 = re.search(r"demo with patch: rc=(\d+)", text)
    suite = re.search(r"(\d+ failed, )?(\d+) passed[^\n]*", text)
    failed = re.findall(r"^FAILED (\S+)", text, re.M)
    checks = re.findall(r"^(\S+?)_patch\.diff: expect=caught got=(\S+) \S+ \((\d+)s\)\s*(.*)$", text, re.M)
    runs = []
    for line in text.splitlines():
        mm = re.match(r"^(\S+)_patch\.diff: expect=caught got=(\S+) ", line)
        if mm:
            runs.append(line[:400])
    engines = re.findall(r"^selftest (\S+): (\d)/1", text, re.M)
    meta = {
        "id": sid,
        "property_broken": a["property"],
        "origin": a["origin"],
        "summary": a["summary"],
        "needs_to_manifest": a["needs"],
        "confirmed": {
            "demo_without_patch_rc": int(m0.group(1)) if m0 else None,
            "demo_with_patch_rc": int(m1.group(1)) if m1 else None,
            "pinned_suite_with_patch": suite.group(0) if suite else None,
            "suite_failures": failed,
            "suite_note": "baseline on the unchanged tree: 410 passed, 1 failed (Test_cpp::test_expected_aas_core_meta_v3), 90 errors",
        },
        "what_i_ran": [
            "bin/eval_seeded.sh: fresh scratch worktree of /repo HEAD; demo.py without and with patch.diff; whole pinned suite with the patch; then bin/selftest.py <engine> --patch patch.diff (quick tier, scratch copy under /dev/shm)",
        ] + runs,
        "checks": {e: ("caught" if ok == "1" else "missed") for e, ok in engines},
        "verdict": a["verdict"],
        **({"suite_extra": a["suite_extra"]} if "suite_extra" in a else {}),
        "strengthening": a.get("strengthening", ""),
    }
    with open(os.path.join(d, "meta.json"), "w") as f:
        json.dump(meta, f, indent=1)
        f.write("\n")
    print(sid, meta["confirmed"]["demo_without_patch_rc"], meta["confirmed"]["demo_with_patch_rc"],
          meta["confirmed"]["pinned_suite_with_patch"], meta["checks"])
