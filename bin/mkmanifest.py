#!/venv/bin/python
"""Writes /verif/MANIFEST.json from the table below (kept in one place to stay consistent)."""
import json, os
VERIF = os.path.dirname(os.path.dirname(os.path.abspath(__file__)))
PY = "/venv/bin/python"

def check(pid, engine, category, text, note, technique, design_ref):
    return {
        "property_id": pid,
        "engine": engine,
        "quick_cmd": f"{PY} bin/check.py {engine} --tier quick",
        "thorough_cmd": f"{PY} bin/check.py {engine} --tier thorough",
        "replay_cmd_template": f"{PY} bin/check.py {engine} --replay {{path}}",
        "evidence_file": f"evidence/{pid}.json",
        "level_claimed": {"category": category, "text": text, "design_ref": design_ref},
        "level_note": note,
        "technique": technique,
    }

CHECKS = [
    check("C24", "cache_conc", "exploration",
          "Seeded search over interleavings of 2-4 simulated generator processes (real main.execute, real pickle/pathlib/tmpfs) "
          "sharing the cache directory, with process crashes at every file-system step incl. torn writes at arbitrary bytes, "
          "injected errnos, short reads/writes; oracle = every surviving run and two later fresh runs per model equal the "
          "uncached reference. Sampling, not enumeration: a clean batch is evidence, not proof.",
          "Trusted: the simulator kernel (baton-passed threads as processes, effect suppression after a crash), real tmpfs rename "
          "atomicity; fault model is process crash, not power loss.",
          "deterministic simulation: seeded scheduler + crash/torn-write/errno injection at file-system seams, reference-model oracle",
          "DESIGN.md section 2 (C24)"),
]

NA_COMMON = ("pure function of its input (no schedule, clock, stream, shared state or fault path); deciding it is input "
             "generation + oracle, i.e. a different technique family - see DESIGN.md section 5")
NA = {
    "C01": "front end totality: pure function of the meta-model text; " + NA_COMMON,
    "C04": "error locations: pure function text -> positions; " + NA_COMMON,
    "C05": "inheritance resolution: pure function of the meta-model; " + NA_COMMON,
    "C06": "structural rules: pure function of the meta-model; " + NA_COMMON,
    "C07": "type-checked invariants: pure function of the meta-model; " + NA_COMMON,
    "C08": "generated Python verification: pure function of (meta-model, instance), no I/O or concurrency in the generated code; " + NA_COMMON,
    "C09": "cross-language agreement: pure; needs compilers, not a scheduler; " + NA_COMMON,
    "C11": "JSON Schema validity: pure function judged by an external validator; " + NA_COMMON,
    "C12": "JSON Schema strictness: pure function judged by an external validator; " + NA_COMMON,
    "C13": "XSD validity: pure function judged by an external validator; " + NA_COMMON,
    "C14": "XSD strictness: pure function judged by an external validator; " + NA_COMMON,
    "C15": "constraint inference: pure function of the invariants; " + NA_COMMON,
    "C16": "regex front end: pure function of the pattern; " + NA_COMMON,
    "C17": "UTF-16 regex rewriting: pure function of the pattern; " + NA_COMMON,
    "C18": "regex VM: pure function of (pattern, string); the VM's internal thread list is not a schedule anyone can influence; " + NA_COMMON,
    "C19": "emitted literals: pure function of a value; " + NA_COMMON,
    "C20": "syntactic well-formedness of generated files: pure function of the meta-model per target; " + NA_COMMON,
    "C21": "name collisions: pure function of the meta-model per target; " + NA_COMMON,
    "C27": "message wrapping: pure function of a string; " + NA_COMMON,
    "C28": "smoke tool agreement: pure function of the model text; " + NA_COMMON,
    "C29": "SDK traversal/accessors: pure function of (meta-model, instance); " + NA_COMMON,
    "C30": "constants and enumerations: pure function of the meta-model; " + NA_COMMON,
}
# properties planned but whose check is not built yet are listed as not applicable *for now*
PENDING = {
}

def main():
    claimed = {c["property_id"] for c in CHECKS}
    na = [{"property_id": k, "reason": v} for k, v in sorted(NA.items()) if k not in claimed]
    na += [{"property_id": k, "reason": v} for k, v in sorted(PENDING.items()) if k not in claimed]
    manifest = {
        "version": 1,
        "setup_cmd": f"{PY} bin/setup_check.py",
        "hooks": {
            "guard": "AAS_CORE_CODEGEN_VERIF",
            "enable": "no hook in /repo is needed: all seams are installed from /verif by patching io.open / os.* / uuid / time "
                      "in-process; checks import the working tree directly (VERIF_REPO, default /repo)",
            "baseline_off_cmd": "cd /repo && /venv/bin/python -m pytest -ra -q -p no:cacheprovider --timeout=900 --continue-on-collection-errors",
            "source_commits": [],
            "add_only": True,
        },
        "engines": [
            {"name": "cache_conc", "path": "engines/cache_conc.py", "serves_properties": ["C24"],
             "kind_free_text": "deterministic simulation: concurrent simulated processes + crashes on the shared model cache"},
        ],
        "checks": CHECKS,
        "not_applicable": na,
        "notes": "Technique family: deterministic simulation with fault injection. See DESIGN.md; known findings in known_findings.json.",
    }
    with open(os.path.join(VERIF, "MANIFEST.json"), "w") as f:
        json.dump(manifest, f, indent=1)
        f.write("\n")
    try:
        import jsonschema
        jsonschema.validate(manifest, json.load(open("/root/.vp/MANIFEST.schema.json")))
        print("MANIFEST.json valid;", len(CHECKS), "checks,", len(na), "not applicable")
    except ImportError:
        print("written (jsonschema not available)")

if __name__ == "__main__":
    main()
