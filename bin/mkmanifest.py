#!/venv/bin/python
"""Writes /verif/MANIFEST.json from the table below (kept in one place to stay consistent)."""
import json, os
VERIF = os.path.dirname(os.path.dirname(os.path.abspath(__file__)))
PY = "/venv/bin/python"

def check(pid, engine, category, text, note, technique, design_ref):
    return {
        "property_id": pid,
        "engine": engine,
        "quick_cmd": f"{PY} bin/check.py {engine} --tier quick",
        "thorough_cmd": f"{PY} bin/check.py {engine} --tier thorough",
        "replay_cmd_template": f"{PY} bin/check.py {engine} --replay {{path}}",
        "evidence_file": f"evidence/{pid}.json",
        "level_claimed": {"category": category, "text": text, "design_ref": design_ref},
        "level_note": note,
        "technique": technique,
    }

CHECKS = [
    check("C24", "cache_conc", "exploration",
          "Seeded search over interleavings of 2-4 simulated generator processes (real main.execute, real pickle/pathlib/tmpfs) "
          "sharing the cache directory, with process crashes at every file-system step incl. torn writes at arbitrary bytes, "
          "injected errnos, short reads/writes, processes whose PIDs collide (separate PID namespaces on a shared volume), simulated time (0 to 40 days) passing before the later runs; oracle = every surviving run and two later fresh runs per model equal the "
          "uncached reference. Sampling, not enumeration: a clean batch is evidence, not proof.",
          "Trusted: the simulator kernel (baton-passed threads as processes, effect suppression after a crash), real tmpfs rename "
          "atomicity; fault model is process crash, not power loss.",
          "deterministic simulation: seeded scheduler + crash/torn-write/errno injection at file-system seams, reference-model oracle",
          "DESIGN.md section 2 (C24)"),
    check("C23", "cache_hist", "exploration",
          "Seeded histories of set-model / run (cache on|off, via CLI main or Parameters) / wipe-cache operations on a sandboxed "
          "file system (edits incl. near-twin texts that differ in case, blank runs or one non-ASCII character); every run is compared with the uncached reference run, every file-system event is audited "
          "(sys.addaudithook) for confinement and for reuse of an entry produced from another text, and the pickled symbol "
          "table is compared with the original by dump, aliasing structure, id-sets and queries.",
          "Trusted: CPython's audit events cover every file open/rename/remove/mkdir; the temp dir is redirected into the sandbox.",
          "deterministic simulation: seeded operation histories against a sandboxed file system with an audit log, reference model = uncached run",
          "DESIGN.md section 2 (C23)"),
    check("C22", "determinism", "exploration",
          "Every corpus case (model incl. rejected ones, snippets variant, target) and aas_core_meta.v3 is executed in several "
          "fresh interpreters that differ in PYTHONHASHSEED, heap layout incl. scrambled allocator free lists, directory listing order "
          "(scandir seam), output-dir location (also beneath the snippets dir) and history (absent, empty, foreign, same-named files that "
          "are longer / identical / equal up to line endings / binary), position in the process and locale (one child per plan runs under LC_ALL=C without UTF-8 mode); rc, stdout up to the output path, stderr and the hashes of all "
          "written files must agree.",
          "Trusted: each child interpreter is a pure function of its spec (self-tested); only the listed nondeterminism sources are varied.",
          "deterministic simulation: every nondeterminism source behind a seeded seam, differential comparison across seeded child interpreters",
          "DESIGN.md section 2 (C22)"),
    check("C25", "snippets", "exploration",
          "Seeded directory trees (valid/invalid/unicode/newline/non-UTF-8 names, hidden entries, empty dirs, whitespace, invalid "
          "UTF-8) on the sandboxed file system, at seeded locations (plain, hidden ancestors, symlink, relative, '..'), listed in seeded "
          "orders; read_from_directory and main.execute are compared with a "
          "dict computed from the tree spec.",
          "Trusted: validity of a key is the repository's own IMPLEMENTATION_KEY_RE; cases on which the statement is silent (files "
          "below hidden dirs, CR, BOM, exotic whitespace, symlinks) are not generated.",
          "deterministic simulation: seeded file-system trees + seeded directory-listing order at the scandir seam, reference-model oracle",
          "DESIGN.md section 2 (C25)"),
    check("C26", "yieldflow", "exploration",
          "Seeded structured flows are linearized by the real code and run as interleaved resumable state machines under seeded "
          "condition-outcome tapes against a structured reference interpreter; histories must agree event by event, labels must "
          "be consecutive and all targets must exist. Thorough tier also compiles the emitted C++ body with g++.",
          "Trusted: the ~60-line interpreter of the subroutines models the emitted switch/fall-through/continue/return protocol "
          "(validated against g++ in the thorough tier).",
          "deterministic simulation: resumable machines stepped by a seeded scheduler and environment, refinement check against an executable reference model",
          "DESIGN.md section 2 (C26)"),
    check("C02", "iofault_c02", "fault_enumeration",
          "I/O-fault slice only: every mkdir/open/write/close inside the output directory of a recorded run is failed with every "
          "applicable errno, transient and persistent (exhaustive single faults on small common models; seeded double faults, state "
          "faults such as stale binary files or a directory in the way, unusual directory layouts; samples on the rest of "
          "the corpus and aas_core_meta.v3); no exception may escape main.execute. Whether generators crash on meta-models outside "
          "the corpus (the pure-input part of C02) is NOT decided.",
          "Only faults at operations of <target>/main.py:execute inside the output directory; smoke tool and pure-input crashes are out of scope of this technique.",
          "deterministic fault injection: exhaustive single-fault enumeration at the raw-file / os.mkdir seams of a recorded run",
          "DESIGN.md section 3 (C02/C03)"),
    check("C03", "iofault_c03", "fault_enumeration",
          "I/O-fault slice only: under the same enumerated disk faults (transient and persistent), state faults and directory layouts the run must keep rc == 0 iff stderr empty, rc 0 implies the "
          "Code-generated line and an output tree identical to the fault-free run, rc != 0 implies a non-empty report whose first "
          "bullet follows a headline ending in ':'; benign conditions (short writes, stale longer files) must end in rc 0. The "
          "report-shape clause in general and 'no error is dropped' are NOT decided.",
          "Only faults inside the output directory; the weak reading of the report-shape clause is judged (main.execute itself emits un-bulleted one-line messages).",
          "deterministic fault injection: exhaustive single-fault enumeration at the raw-file / os.mkdir seams of a recorded run",
          "DESIGN.md section 3 (C02/C03)"),
    check("C10", "xmlstream", "exploration",
          "XML-stream slice only: instances of generated+imported Python SDKs (23 small corpus models incl. variants with exotic "
          "enumeration values, two cross-reference models of /verif, aas_core_meta.v3) are written and read back whole, through "
          "from_stream under seeded short reads and through from_file under short raw reads; labelled mistyped documents must get the same verdict whole and chunked and only "
          "DeserializationException; corrupted documents only DeserializationException/ParseError. JSON round trip as fault-free "
          "baseline. Other SDK languages and meta-models outside the corpus are NOT decided.",
          "Only corpus models for which the python target yields an importable SDK; ParseError accepted for not well-formed input.",
          "deterministic simulation: caller-supplied stream with seeded short reads (chunk boundaries as the schedule), verdict-stability and round-trip oracles",
          "DESIGN.md section 3 (C10)"),
]

NA_COMMON = ("pure function of its input (no schedule, clock, stream, shared state or fault path); deciding it is input "
             "generation + oracle, i.e. a different technique family - see DESIGN.md section 5")
NA = {
    "C01": "front end totality: pure function of the meta-model text; " + NA_COMMON,
    "C04": "error locations: pure function text -> positions; " + NA_COMMON,
    "C05": "inheritance resolution: pure function of the meta-model; " + NA_COMMON,
    "C06": "structural rules: pure function of the meta-model; " + NA_COMMON,
    "C07": "type-checked invariants: pure function of the meta-model; " + NA_COMMON,
    "C08": "generated Python verification: pure function of (meta-model, instance), no I/O or concurrency in the generated code; " + NA_COMMON,
    "C09": "cross-language agreement: pure; needs compilers, not a scheduler; " + NA_COMMON,
    "C11": "JSON Schema validity: pure function judged by an external validator; " + NA_COMMON,
    "C12": "JSON Schema strictness: pure function judged by an external validator; " + NA_COMMON,
    "C13": "XSD validity: pure function judged by an external validator; " + NA_COMMON,
    "C14": "XSD strictness: pure function judged by an external validator; " + NA_COMMON,
    "C15": "constraint inference: pure function of the invariants; " + NA_COMMON,
    "C16": "regex front end: pure function of the pattern; " + NA_COMMON,
    "C17": "UTF-16 regex rewriting: pure function of the pattern; " + NA_COMMON,
    "C18": "regex VM: pure function of (pattern, string); the VM's internal thread list is not a schedule anyone can influence; " + NA_COMMON,
    "C19": "emitted literals: pure function of a value; " + NA_COMMON,
    "C20": "syntactic well-formedness of generated files: pure function of the meta-model per target; " + NA_COMMON,
    "C21": "name collisions: pure function of the meta-model per target; " + NA_COMMON,
    "C27": "message wrapping: pure function of a string; " + NA_COMMON,
    "C28": "smoke tool agreement: pure function of the model text; " + NA_COMMON,
    "C29": "SDK traversal/accessors: pure function of (meta-model, instance); " + NA_COMMON,
    "C30": "constants and enumerations: pure function of the meta-model; " + NA_COMMON,
}
# properties planned but whose check is not built yet are listed as not applicable *for now*
PENDING = {
}

def main():
    claimed = {c["property_id"] for c in CHECKS}
    na = [{"property_id": k, "reason": v} for k, v in sorted(NA.items()) if k not in claimed]
    na += [{"property_id": k, "reason": v} for k, v in sorted(PENDING.items()) if k not in claimed]
    manifest = {
        "version": 1,
        "setup_cmd": f"{PY} bin/setup_check.py",
        "hooks": {
            "guard": "AAS_CORE_CODEGEN_VERIF",
            "enable": "no hook in /repo is needed: all seams are installed from /verif by patching io.open / os.* / uuid / time "
                      "in-process; checks import the working tree directly (VERIF_REPO, default /repo)",
            "baseline_off_cmd": "cd /repo && /venv/bin/python -m pytest -ra -q -p no:cacheprovider --timeout=900 --continue-on-collection-errors",
            "source_commits": [],
            "add_only": True,
        },
        "engines": [
            {"name": "kernel", "path": "dsim/kernel.py", "serves_properties": ["C24", "C23", "C22", "C25", "C02", "C03"],
             "kind_free_text": "simulation kernel: sandbox, seams (io.open/os.*/uuid/time/flock), baton-passed actors, crashes, audit hook, trace"},
            {"name": "cache_conc", "path": "engines/cache_conc.py", "serves_properties": ["C24"],
             "kind_free_text": "concurrent simulated processes + crashes on the shared model cache"},
            {"name": "cache_hist", "path": "engines/cache_hist.py", "serves_properties": ["C23"],
             "kind_free_text": "histories of runs/edits with audit log against the uncached reference"},
            {"name": "determinism", "path": "engines/determinism.py", "serves_properties": ["C22"],
             "kind_free_text": "differential runs across seeded child interpreters"},
            {"name": "snippets", "path": "engines/snippets.py", "serves_properties": ["C25"],
             "kind_free_text": "seeded directory trees and listing orders"},
            {"name": "yieldflow", "path": "engines/yieldflow.py", "serves_properties": ["C26"],
             "kind_free_text": "resumable state machines vs structured reference interpreter"},
            {"name": "iofault", "path": "engines/iofault.py", "serves_properties": ["C02", "C03"],
             "kind_free_text": "exhaustive single-fault enumeration on the output tree"},
            {"name": "xmlstream", "path": "engines/xmlstream.py", "serves_properties": ["C10"],
             "kind_free_text": "generated Python SDK reading XML from a chunked stream"},
        ],
        "checks": CHECKS,
        "not_applicable": na,
        "notes": "Technique family: deterministic simulation with fault injection. See DESIGN.md; known findings in known_findings.json.",
    }
    with open(os.path.join(VERIF, "MANIFEST.json"), "w") as f:
        json.dump(manifest, f, indent=1)
        f.write("\n")
    try:
        import jsonschema
        jsonschema.validate(manifest, json.load(open("/root/.vp/MANIFEST.schema.json")))
        print("MANIFEST.json valid;", len(CHECKS), "checks,", len(na), "not applicable")
    except ImportError:
        print("written (jsonschema not available)")

if __name__ == "__main__":
    main()
