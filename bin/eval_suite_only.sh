#!/bin/bash
# (re)run only the pinned suite with a seeded patch applied; append the summary to confirm.log
id=$1
V=$(cd "$(dirname "$0")/.." && pwd)
dst=$V/seeded/$id
wt=/tmp/evs-$id
git -C /repo worktree remove --force "$wt" 2>/dev/null
git -C /repo worktree add -q "$wt" HEAD || exit 2
cd "$wt" && git apply "$dst/patch.diff" || exit 2
PYTHONPATH=$wt timeout 10800 /venv/bin/python -m pytest -q -p no:cacheprovider --timeout=1800 --continue-on-collection-errors ${SUITE_JOBS:+-n $SUITE_JOBS} > "$dst/suite.log" 2>&1
echo "suite (scratch worktree with the patch${SUITE_JOBS:+, pytest-xdist -n $SUITE_JOBS}):" >> "$dst/confirm.log"
tail -1 "$dst/suite.log" | tee -a "$dst/confirm.log"
grep "^FAILED" "$dst/suite.log" | tee -a "$dst/confirm.log"
tail -400 "$dst/suite.log" > "$dst/suite.tail"; mv "$dst/suite.tail" "$dst/suite.log"
cd /; git -C /repo worktree remove --force "$wt"
