#!/bin/bash
# run every sensitivity / soundness catalogue
cd "$(dirname "$0")/.."
for e in yieldflow snippets cache_hist cache_conc xmlstream iofault_c02 iofault_c03 determinism; do
  /venv/bin/python bin/selftest.py $e 2>&1 | grep "patch:\|selftest" | cut -c1-160
done
