#!/bin/bash
# Confirm an independently written breaking change and run the checks against it.
#   eval_seeded.sh <seed id> <source dir with patch.diff demo.py notes.md> <engine> [engine ...]
# 1. fresh scratch worktree of /repo HEAD: demo passes without the patch, fails with it
# 2. the pinned suite with the patch applied (background-safe: uses the scratch worktree)
# 3. the named checks against a scratch copy with the patch (bin/selftest.py --patch)
set -u
id=$1; src=$2; shift 2
V=$(cd "$(dirname "$0")/.." && pwd)
dst=$V/seeded/$id
mkdir -p "$dst"
# several queues may work through overlapping lists: first come, first served
mkdir "/tmp/eval-lock-$id" 2>/dev/null || { echo "already taken: $id"; exit 0; }
cp "$src/patch.diff" "$src/demo.py" "$dst/" 2>/dev/null
[ -f "$src/notes.md" ] && cp "$src/notes.md" "$dst/notes.md"
wt=/tmp/ev-$id
git -C /repo worktree remove --force "$wt" 2>/dev/null
git -C /repo worktree add -q "$wt" HEAD || exit 2
cd "$wt"
log=$dst/confirm.log
: > "$log"
# the demonstrations expect to live in <worktree>/_seed/ (next to helper files they may need)
mkdir -p "$wt/_seed"; cp -r "$src"/. "$wt/_seed/"
PYTHONPATH=$wt timeout 900 /venv/bin/python "$wt/_seed/demo.py" >> "$log" 2>&1; rc0=$?
echo "demo without patch: rc=$rc0" | tee -a "$log"
git apply --exclude='_seed/*' "$dst/patch.diff" || { echo "PATCH DOES NOT APPLY" | tee -a "$log"; exit 2; }
PYTHONPATH=$wt timeout 900 /venv/bin/python "$wt/_seed/demo.py" >> "$log" 2>&1; rc1=$?
echo "demo with patch: rc=$rc1" | tee -a "$log"
if [ "${SKIP_SUITE:-0}" != "1" ]; then
  rm -rf "$wt/_seed"
  PYTHONPATH=$wt timeout 10800 /venv/bin/python -m pytest -q -p no:cacheprovider --timeout=1800 --continue-on-collection-errors > "$dst/suite.log" 2>&1
  tail -1 "$dst/suite.log" | tee -a "$log"
  grep "^FAILED" "$dst/suite.log" | tee -a "$log"
  tail -400 "$dst/suite.log" > "$dst/suite.tail"; mv "$dst/suite.tail" "$dst/suite.log"
fi
cd /; git -C /repo worktree remove --force "$wt"
for e in "$@"; do
  /venv/bin/python "$V/bin/selftest.py" "$e" --patch "$dst/patch.diff" --expect caught 2>&1 | grep "expect=\|selftest" | cut -c1-400 | tee -a "$log"
done
