#!/bin/bash
# Soundness sweep: run every quick check under several seeds on the unchanged tree.
# usage: seed_sweep.sh <first seed> <last seed> [engine ...]
cd "$(dirname "$0")/.."
first=${1:-1}; last=${2:-3}; shift 2
engines=${@:-cache_conc cache_hist determinism snippets yieldflow iofault_c02 iofault_c03 xmlstream}
export VERIF_OUT=${VERIF_OUT:-/dev/shm/aascg-sweep-out}
mkdir -p "$VERIF_OUT"
for seed in $(seq $first $last); do
  for e in $engines; do
    start=$(date +%s)
    VERIF_SEED=$seed /venv/bin/python bin/check.py $e --tier quick > "$VERIF_OUT/$e-$seed.log" 2>&1
    rc=$?
    echo "seed=$seed engine=$e rc=$rc wall=$(( $(date +%s) - start ))s $(grep -c '^VIOLATION' "$VERIF_OUT/$e-$seed.log") violations $(grep -c 'HARNESS-ERROR' "$VERIF_OUT/$e-$seed.log") harness-errors"
  done
done
