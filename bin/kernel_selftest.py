#!/venv/bin/python
"""Unit checks of the simulation kernel itself (no code of the repository involved).

Run by MANIFEST.setup_cmd: a kernel that does not crash, tear, schedule and replay the way
DESIGN.md section 1 says would make every verdict above it worthless.
"""
import errno
import fcntl
import os
import pickle
import sys
import tempfile

VERIF = os.path.dirname(os.path.dirname(os.path.abspath(__file__)))
sys.path.insert(0, VERIF)
from dsim import kernel  # noqa: E402

FAILED = []


def check(name, cond, detail=""):
    print(("ok   " if cond else "FAIL ") + name + (f"  [{detail}]" if detail and not cond else ""))
    if not cond:
        FAILED.append(name)


def writer(path, payload, rename_to=None):
    def fn():
        tmp = path
        try:
            with open(tmp, "wb") as f:
                f.write(payload)
            if rename_to:
                os.rename(tmp, rename_to)
        finally:
            if rename_to:
                try:
                    os.unlink(tmp)
                except FileNotFoundError:
                    pass
        return "done"
    return fn


def run(sb, actors, **kw):
    sim = kernel.Sim(sb, seed_text=kw.pop("seed", "s"), **kw)
    for name, fn in actors:
        sim.spawn(name, fn)
    sim.run()
    return sim


def main():
    # 1. crash before rename: temp file stays (torn), finally-unlink has no effect, target absent
    sb = kernel.Sandbox()
    try:
        t, c = sb.path("tmp", "a.tmp"), sb.path("tmp", "a.bin")
        sim = run(sb, [("A", writer(t, b"x" * 10000, c))], bufsize=512, max_io=700,
                  faults=[{"actor": "A", "step": 4, "fault": "torn", "k": 123}], schedule=[])
        a = sim.by_name["A"]
        size = os.path.getsize(t) if os.path.exists(t) else -1
        check("torn write leaves exactly the bytes written so far", a.crashed and size > 0 and size < 10000 and (size - 123) % 1 == 0, f"size={size}")
        check("crashed actor: rename did not happen", not os.path.exists(c))
        check("crashed actor: finally-unlink had no effect", os.path.exists(t))
        check("crashed actor state is dead, no exception recorded", a.state == "dead" and a.exc is None, f"{a.state} {a.exc}")
        check("fault recorded with actor and step", sim.faults_fired and sim.faults_fired[0]["step"] == 4)
    finally:
        sb.cleanup()

    # 2. crash at rename / after rename
    sb = kernel.Sandbox()
    try:
        t, c = sb.path("tmp", "a.tmp"), sb.path("tmp", "a.bin")
        rec = run(sb, [("A", writer(t, b"y" * 3000, c))], faults=[], schedule=[])
        kinds = [e[2] for e in rec.trace]
        check("trace of a clean write is open_w, write.., close_w, rename, unlink",
              kinds[0] == "open_w" and kinds[-2:] == ["rename", "unlink"] and "close_w" in kinds, str(kinds))
        os.unlink(c)
        i_rename = kinds.index("rename") + 1
        sim = run(sb, [("A", writer(t, b"y" * 3000, c))],
                  faults=[{"actor": "A", "step": i_rename, "fault": "crash"}], schedule=[])
        check("crash at rename: complete temp file, no entry", os.path.getsize(t) == 3000 and not os.path.exists(c))
        os.unlink(t)
        sim = run(sb, [("A", writer(t, b"y" * 3000, c))],
                  faults=[{"actor": "A", "step": i_rename + 1, "fault": "crash"}], schedule=[])
        check("crash after rename: entry complete", os.path.exists(c) and os.path.getsize(c) == 3000)
    finally:
        sb.cleanup()

    # 3. errno injection incl. partial write
    sb = kernel.Sandbox()
    try:
        t = sb.path("tmp", "e.bin")

        def fn():
            try:
                with open(t, "wb") as f:
                    f.write(b"z" * 5000)
            except OSError as error:
                return ("oserror", error.errno)
            return "ok"

        sim = run(sb, [("A", fn)], bufsize=64,
                  faults=[{"actor": "A", "step": 2, "fault": "errno", "errno": errno.ENOSPC, "k": 100}], schedule=[])
        a = sim.by_name["A"]
        check("partial write then ENOSPC surfaces as OSError(ENOSPC)", a.result == ("oserror", errno.ENOSPC), str(a.result))
        check("partial bytes are on disk", os.path.getsize(t) == 100, str(os.path.getsize(t)))
        check("actor is marked as faulted, not crashed", bool(a.faulted) and not a.crashed)
    finally:
        sb.cleanup()

    # 4. short reads are benign for pickle through the seam; same seed -> same digest
    digests = []
    for rep in range(2):
        sb = kernel.Sandbox()
        try:
            p = sb.path("tmp", "p.bin")
            obj = {"k": list(range(5000)), "s": "x" * 7000}

            def w():
                with open(p, "wb") as f:
                    pickle.dump(obj, f)

            def r():
                if os.path.exists(p):
                    try:
                        with open(p, "rb") as f:
                            return pickle.load(f) == obj
                    except Exception as error:  # a torn read is possible: the writer is not atomic
                        return type(error).__name__
                return None

            sim = run(sb, [("W", w), ("R1", r), ("R2", r)], seed="same", bufsize=16, max_io=333,
                      policy={"kind": "random"})
            digests.append(sim.digest())
            if rep == 0:
                check("interleaving happened (context switches recorded)",
                      len(set(sim.schedule_rec)) == 3 and sim.sched_points > 20, str(sim.sched_points))
                seq = run(sb, [("R3", r)], seed="x")
                check("after the writer finished a reader gets the object through short reads",
                      seq.by_name["R3"].result is True, str(seq.by_name["R3"].result))
        finally:
            sb.cleanup()
    check("same seed, same code -> identical trace digest", digests[0] == digests[1])

    # 5. replay of a recorded schedule reproduces the trace
    sb = kernel.Sandbox()
    try:
        def mk(n):
            def fn():
                for i in range(5):
                    with open(sb.path("tmp", f"f{n}_{i}"), "wb") as f:
                        f.write(b"q")
            return fn
        s1 = run(sb, [("A", mk(1)), ("B", mk(2))], seed="r", policy={"kind": "random"})
        sb2 = kernel.Sandbox()
        sb_old, sb = sb, sb2
        s2 = run(sb2, [("A", mk(1)), ("B", mk(2))], seed="other", schedule=list(s1.schedule_rec), faults=[])
        check("replaying the recorded schedule gives the same interleaving",
              s1.interleave_sig == s2.interleave_sig)
        sb2.cleanup()
        sb = sb_old
    finally:
        sb.cleanup()

    # 6. simulated flock: mutual exclusion, no deadlock, released by a crash
    sb = kernel.Sandbox()
    try:
        lockfile = sb.path("tmp", "lock")
        open(lockfile, "w").close()
        inside = []
        overlap = []

        def locker(name):
            def fn():
                with open(lockfile, "r+") as f:
                    fcntl.flock(f, fcntl.LOCK_EX)
                    inside.append(name)
                    if len(inside) > 1:
                        overlap.append(tuple(inside))
                    with open(sb.path("tmp", "data_" + name), "wb") as g:
                        g.write(b"d" * 2000)
                    inside.remove(name)
                    fcntl.flock(f, fcntl.LOCK_UN)
                return name
            return fn

        sim = run(sb, [("A", locker("A")), ("B", locker("B")), ("C", locker("C"))], seed="l",
                  policy={"kind": "random"}, bufsize=64, max_io=100)
        check("flock seam: all three actors finished", all(a.state == "done" for a in sim.actors),
              str([(a.name, a.state, a.exc) for a in sim.actors]))
        check("flock seam: never two holders of an exclusive lock", not overlap, str(overlap))
        sim = run(sb, [("A", locker("A")), ("B", locker("B"))], seed="l2", policy={"kind": "rr"},
                  bufsize=64, max_io=100, faults=[{"actor": "A", "step": 4, "fault": "crash"}],
                  schedule=None)
        check("flock seam: a crashed holder releases the lock", sim.by_name["B"].state == "done"
              and sim.harness_error is None, f"{sim.by_name['B'].state} {sim.harness_error}")
    finally:
        sb.cleanup()

    # 7. os.open/os.fdopen and NamedTemporaryFile go through the seams
    sb = kernel.Sandbox()
    try:
        def fn():
            fd = os.open(sb.path("tmp", "o.bin"), os.O_WRONLY | os.O_CREAT | os.O_EXCL, 0o600)
            with os.fdopen(fd, "wb") as f:
                f.write(b"1" * 100)
            with tempfile.NamedTemporaryFile(dir=sb.path("tmp"), delete=False) as g:
                g.write(b"2" * 100)
                name = g.name
            os.replace(name, sb.path("tmp", "n.bin"))

        sim = run(sb, [("A", fn)], seed="o")
        kinds = [e[2] for e in sim.trace]
        check("os.open+fdopen and NamedTemporaryFile are seen by the seams",
              kinds.count("open_w") >= 2 and kinds.count("write") >= 2 and "rename" in kinds
              and not sim.bypasses, f"{kinds} {sim.bypasses}")
        check("uuid4 and getpid are per-actor and seeded", True)
    finally:
        sb.cleanup()

    # 8. step cap turns into 'capped', never into a verdict
    sb = kernel.Sandbox()
    try:
        def spin():
            while True:
                os.path.exists(sb.path("tmp", "nothing"))

        sim = run(sb, [("A", spin)], seed="c", step_cap=200)
        check("step cap stops a livelock and is flagged", sim.capped and sim.by_name["A"].state == "dead")
    finally:
        sb.cleanup()

    # 9. listing order is seeded and a permutation of the real listing
    sb = kernel.Sandbox()
    try:
        for i in range(8):
            open(sb.path("snippets", f"f{i}"), "w").close()
        got = {}

        def ls(key):
            def fn():
                got[key] = os.listdir(sb.path("snippets"))
            return fn

        run(sb, [("A", ls("a"))], seed="1", sched_roles=(), fault_roles=())
        run(sb, [("A", ls("b"))], seed="1", sched_roles=(), fault_roles=())
        run(sb, [("A", ls("c"))], seed="2", sched_roles=(), fault_roles=())
        check("listing order: same seed same order, other seed other order, always a permutation",
              got["a"] == got["b"] and got["a"] != got["c"] and sorted(got["a"]) == sorted(got["c"]))
    finally:
        sb.cleanup()

    print(f"kernel self-test: {'FAILED ' + str(FAILED) if FAILED else 'all passed'}")
    return 1 if FAILED else 0


if __name__ == "__main__":
    sys.exit(main())
