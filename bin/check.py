#!/venv/bin/python
"""Entry point of every registered check.

    check.py <engine> --tier quick|thorough
    check.py <engine> --replay <file>
    check.py <engine> --digests 1,2,3     (used by the determinism self-test)

Exit 0: property held on everything explored (KNOWN-FINDING lines possible).
Exit 1: `VIOLATION property=<id> replay=<path>` printed.
Exit 2: harness error (never a verdict).
"""
import argparse
import faulthandler
import json
import os
import sys

VERIF = os.path.dirname(os.path.dirname(os.path.abspath(__file__)))
sys.path.insert(0, VERIF)


def main() -> int:
    parser = argparse.ArgumentParser()
    parser.add_argument("engine")
    parser.add_argument("--tier", default=os.environ.get("VERIF_TIER", "quick"),
                        choices=["quick", "thorough"])
    parser.add_argument("--replay")
    parser.add_argument("--digests")
    parser.add_argument("--child")
    parser.add_argument("--runs", type=int)
    parser.add_argument("--wall-cap", type=float)
    args = parser.parse_args()

    # Re-exec once with a fixed hash seed so that a run is a function of VERIF_SEED alone.
    if os.environ.get("PYTHONHASHSEED") is None and not args.child:
        env = dict(os.environ)
        env["PYTHONHASHSEED"] = "0"
        # page faults / mmap churn and thread creation scale very badly across processes in
        # this sandbox: keep freed memory inside the process
        env.setdefault("MALLOC_TRIM_THRESHOLD_", "1000000000")
        env.setdefault("MALLOC_MMAP_THRESHOLD_", "1000000000")
        env.setdefault("MALLOC_TOP_PAD_", "67108864")
        os.execve(sys.executable, [sys.executable] + sys.argv, env)

    faulthandler.enable()
    from dsim import driver, kernel

    try:
        if args.child:
            eng = driver._load_engine(args.engine)
            return eng.child_main(args.child)
        if args.replay:
            return driver.replay_file(args.engine, args.replay)
        if args.digests:
            runs = [int(x) for x in args.digests.split(",") if x]
            eng = driver._load_engine(args.engine)
            if hasattr(eng, "prepare"):
                eng.prepare(args.tier)
            d = driver.digests_for(args.engine, driver.base_seed(), args.tier, runs)
            print("DIGESTS " + json.dumps(d))
            return 0
        return driver.run_check(args.engine, args.tier, args.runs, args.wall_cap)
    except kernel.HarnessError as error:
        print(f"HARNESS-ERROR: {error}", file=sys.stderr)
        return 2


if __name__ == "__main__":
    sys.exit(main())
